"""Reader-side oracles shared by the RF engines."""
from __future__ import annotations

import os

import numpy as np

from . import model_rf as M


BOUND_TYPES = {"i8": np.int64, "u8": np.uint64}


def read_vs_model(reader, cfg, model, a, b, sub_channel=None, check_fill=True, allow_fill=False, btype=None):
    """-> list of (prop, cls, msg). Compares reader.read(a,b) with the model.
    btype: pass the bounds as numpy integer scalars of that type (what np.arange / index tables hand out)"""
    errs = []
    try:
        conv = BOUND_TYPES.get(btype, int) if (btype != "i8" or b < 2**63) else int
        got = reader.read(conv(a), conv(b), cfg.channel, sub_channel)
    except Exception as e:  # noqa
        return [("C01", "read_raises", "read(%d,%d) raised %s: %s" % (a, b, type(e).__name__, str(e)[:200]))]
    exp = model.expected_blocks(a, b)
    gk = [(int(k), int(v.shape[0])) for k, v in got.items()]
    if gk != exp:
        # find first difference
        errs.append(("C01", "blocks_mismatch",
                     "read(%d,%d): blocks %s != expected %s" % (a, b, gk[:6], exp[:6])))
        return errs
    for k, arr in got.items():
        e = M.compare_block(cfg, model, int(k), arr, sub_channel, allow_fill=allow_fill)
        if e:
            cls = "unwritten_returned" if "never written" in e else "value_mismatch"
            errs.append(("C01", cls, "read(%d,%d): %s" % (a, b, e)))
            break
        if check_fill and cfg.plain_continuous:
            e = M.check_fill(cfg, model, int(k), arr, sub_channel)
            if e:
                errs.append(("C07", "fill_wrong", e))
                break
    return errs


def collect_read(reader, cfg, a, b):
    """{abs_index: bits-row-bytes} is too big; return list of (start, bits) blocks"""
    got = reader.read(a, b, cfg.channel)
    return [(int(k), M.canon_bits(v)) for k, v in got.items()]


def final_files(chdir):
    files, strays = M.scan_channel(chdir)
    fin = [(sd, fn, T) for sd, fn, tmp, T in files if not tmp]
    tmp = [(sd, fn, T) for sd, fn, tmp_, T in files if tmp_]
    return fin, tmp, strays


def check_final_file(cfg, model, chdir, sd, fn, T, want_attrs=True, uuid=None, allow_fill=False):
    """raw inspection of one final-named data file against the model. -> list (prop, cls, msg)"""
    errs = []
    path = os.path.join(chdir, sd, fn)
    try:
        raw = M.read_raw_file(path)
    except Exception as e:  # noqa
        return [("C02", "final_file_unreadable", "%s/%s: %s: %s" % (sd, fn, type(e).__name__, str(e)[:160]))], None
    # placement
    if sd != cfg.subdir_name(T):
        errs.append(("C04", "wrong_subdir", "%s/%s: expected subdir %s" % (sd, fn, cfg.subdir_name(T))))
    for prop, msg in M.check_file_structure(cfg, T, raw):
        errs.append((prop, "file_structure", "%s/%s: %s" % (sd, fn, msg)))
    if errs:
        return errs, raw
    # content: every described sample must be a model sample with equal bits (or fill)
    for s, o, n in M.file_blocks(raw):
        if n <= 0:
            continue
        arr = raw["data"][o:o + n]
        e = M.compare_block(cfg, model, s, arr, allow_fill=allow_fill)
        if e:
            errs.append(("C02", "final_file_wrong_content", "%s/%s: %s" % (sd, fn, e)))
            break
        if cfg.plain_continuous:
            e = M.check_fill(cfg, model, s, arr)
            if e:
                errs.append(("C07", "fill_wrong", "%s/%s: %s" % (sd, fn, e)))
                break
    if want_attrs:
        exp = M.expected_prop_attrs(cfg)
        at = raw["attrs"]
        for k, v in exp.items():
            if k not in at:
                errs.append(("C06", "attr_missing", "%s/%s: attribute %s missing" % (sd, fn, k)))
            elif at[k] != v:
                errs.append(("C06", "attr_mismatch", "%s/%s: attribute %s=%r expected %r" % (sd, fn, k, at[k], v)))
        for k in ("digital_rf_time_description", "digital_rf_version", "uuid_str", "sequence_num",
                  "init_utc_timestamp", "computer_time"):
            if k not in at:
                errs.append(("C06", "attr_missing", "%s/%s: attribute %s missing" % (sd, fn, k)))
        if uuid is not None and at.get("uuid_str") != uuid:
            errs.append(("C06", "attr_mismatch", "%s/%s: uuid_str %r expected %r" % (sd, fn, at.get("uuid_str"), uuid)))
    return errs, raw


def model_of_files(cfg, model, fin):
    return model.restrict_to_files([T for _, _, T in fin])


def merged(intervals):
    out = []
    for lo, hi in sorted(intervals):
        if out and lo <= out[-1][1] + 1:
            out[-1][1] = max(out[-1][1], hi)
        else:
            out.append([lo, hi])
    return [(a, b) for a, b in out]


def check_channel_files(cfg, model, chdir, sessions=None, clock_lo=None):
    """After close: every data file of one channel directory against the model.
    sessions: {uuid: absolute start index}.  -> list of (prop, cls, msg)"""
    errs = []
    fin, tmp, strays = final_files(chdir)
    for sd, fn, T in tmp:
        errs.append(("C02", "tmp_after_close", "%s/%s remains after close" % (sd, fn)))
    for s in strays:
        errs.append(("C02", "stray_file", "unexpected path %s" % s))
    have = sorted(T for _, _, T in fin)
    want = model.files()
    for T in sorted(set(want) - set(have)):
        errs.append(("C04", "file_missing", "samples of file period T=%d ms (%s) are in no such file" % (
            T, cfg.relpath(T))))
    for T in sorted(set(have) - set(want)):
        errs.append(("C07" if cfg.plain_continuous else "C04", "file_without_samples",
                     "file for period T=%d exists but no sample of it was written" % T))
    all_blocks = []
    by_uuid = {}
    for sd, fn, T in fin:
        e, raw = check_final_file(cfg, model, chdir, sd, fn, T, uuid=None)
        errs.extend(e)
        if raw is not None and e and cfg.continuous and not cfg.plain_continuous:
            # (the content comparison above has already failed; the structural clause of C07 is still decided)
            try:
                got = merged([(s, s + n - 1) for s, o, n in M.file_blocks(raw) if n > 0])
                sub = model.restrict_to_files([T])
                exp = merged([(a, a + n - 1) for a, n, _ in sub.segs])
                if got != exp:
                    errs.append(("C07", "filtered_continuous_not_gapped", "%s/%s (continuous, compression=%d, "
                                 "checksum=%s) describes samples %s, gapped mode would describe %s" % (
                                     sd, fn, cfg.compression, cfg.checksum, got[:5], exp[:5])))
            except Exception:  # noqa
                pass
        if raw is None or e:
            continue
        blocks = [(s, s + n - 1) for s, o, n in M.file_blocks(raw) if n > 0]
        all_blocks.extend((lo, hi, T) for lo, hi in blocks)
        got = merged(blocks)
        lo, hi = cfg.window(T)
        if cfg.plain_continuous:
            exp = [(lo, hi)]
            if len(raw["index"]) != 1 or got != exp:
                errs.append(("C07", "not_single_full_block", "%s/%s: index %s, expected one block covering "
                             "the whole window [%d,%d]" % (sd, fn, raw["index"][:4], lo, hi)))
        else:
            sub = model.restrict_to_files([T])
            exp = merged([(a, a + n - 1) for a, n, _ in sub.segs])
            if got != exp:
                errs.append(("C04", "file_content_set", "%s/%s holds samples %s, model says %s" % (
                    sd, fn, got[:5], exp[:5])))
                if cfg.continuous:
                    # last clause of C07: with compression or checksums continuous mode stores gaps as gapped mode does
                    errs.append(("C07", "filtered_continuous_not_gapped", "%s/%s (continuous, compression=%d, checksum=%s) "
                                 "describes samples %s, gapped mode would describe %s" % (
                                     sd, fn, cfg.compression, cfg.checksum, got[:5], exp[:5])))
        at = raw["attrs"]
        by_uuid.setdefault(at.get("uuid_str"), []).append((T, at))
    all_blocks.sort()
    for i in range(1, len(all_blocks)):
        if all_blocks[i][0] <= all_blocks[i - 1][1]:
            errs.append(("C04", "index_in_two_files", "indices [%d,%d] (file T=%d) overlap [%d,%d] (file T=%d)" % (
                all_blocks[i][0], all_blocks[i][1], all_blocks[i][2], all_blocks[i - 1][0],
                all_blocks[i - 1][1], all_blocks[i - 1][2])))
            break
    for uuid, lst in by_uuid.items():
        lst.sort(key=lambda x: x[0])
        if sessions is not None and uuid not in sessions:
            errs.append(("C06", "attr_mismatch", "file carries unknown uuid_str %r" % (uuid,)))
            continue
        seqs = [a.get("sequence_num") for _, a in lst]
        if any(seqs[i] is None or (i and seqs[i] <= seqs[i - 1]) for i in range(len(seqs))):
            errs.append(("C06", "sequence_num", "session %s: sequence_num %s does not increase with file time" % (
                uuid, seqs[:8])))
        inits = set(a.get("init_utc_timestamp") for _, a in lst)
        if len(inits) != 1:
            errs.append(("C06", "init_utc_timestamp", "session %s: init_utc_timestamp varies: %s" % (uuid, sorted(inits)[:4])))
        elif sessions is not None:
            st = sessions[uuid]
            exact = (st * cfg.d) // cfg.n
            got_i = list(inits)[0]
            if got_i is None or abs(int(got_i) - exact) > 1:
                errs.append(("C06", "init_utc_timestamp", "session %s: init_utc_timestamp %s, start is %d s" % (
                    uuid, got_i, exact)))
        if clock_lo is not None:
            cts = [a.get("computer_time") for _, a in lst]
            if any(c is None or c < clock_lo or c > clock_lo + 10**6 for c in cts):
                errs.append(("C06", "computer_time", "session %s: computer_time %s not the (virtual) clock" % (uuid, cts[:4])))
    # properties file equals the duplicated attributes
    pf = os.path.join(chdir, "drf_properties.h5")
    try:
        import h5py

        with h5py.File(pf, "r") as f:
            pa = {k: M._pyval(v) for k, v in f.attrs.items()}
        exp = M.expected_prop_attrs(cfg)
        for k, v in exp.items():
            if pa.get(k) != v:
                errs.append(("C06", "properties_file", "drf_properties.h5: %s=%r expected %r" % (k, pa.get(k), v)))
        for uuid, lst in by_uuid.items():
            for T, at in lst[:1]:
                for k in M.PROP_ATTRS:
                    if pa.get(k) != at.get(k):
                        errs.append(("C06", "properties_file", "attribute %s differs between drf_properties.h5 (%r) "
                                     "and data file (%r)" % (k, pa.get(k), at.get(k))))
    except Exception as e:  # noqa
        errs.append(("C06", "properties_file", "cannot read drf_properties.h5: %s" % e))
    return errs
