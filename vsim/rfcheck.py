"""Reader-side oracles shared by the RF engines."""
from __future__ import annotations

import os

import numpy as np

from . import model_rf as M


def read_vs_model(reader, cfg, model, a, b, sub_channel=None, check_fill=True, allow_fill=False):
    """-> list of (prop, cls, msg). Compares reader.read(a,b) with the model."""
    errs = []
    try:
        got = reader.read(a, b, cfg.channel, sub_channel)
    except Exception as e:  # noqa
        return [("C01", "read_raises", "read(%d,%d) raised %s: %s" % (a, b, type(e).__name__, str(e)[:200]))]
    exp = model.expected_blocks(a, b)
    gk = [(int(k), int(v.shape[0])) for k, v in got.items()]
    if gk != exp:
        # find first difference
        errs.append(("C01", "blocks_mismatch",
                     "read(%d,%d): blocks %s != expected %s" % (a, b, gk[:6], exp[:6])))
        return errs
    for k, arr in got.items():
        e = M.compare_block(cfg, model, int(k), arr, sub_channel, allow_fill=allow_fill)
        if e:
            cls = "unwritten_returned" if "never written" in e else "value_mismatch"
            errs.append(("C01", cls, "read(%d,%d): %s" % (a, b, e)))
            break
        if check_fill and cfg.plain_continuous:
            e = M.check_fill(cfg, model, int(k), arr, sub_channel)
            if e:
                errs.append(("C07", "fill_wrong", e))
                break
    return errs


def collect_read(reader, cfg, a, b):
    """{abs_index: bits-row-bytes} is too big; return list of (start, bits) blocks"""
    got = reader.read(a, b, cfg.channel)
    return [(int(k), M.canon_bits(v)) for k, v in got.items()]


def final_files(chdir):
    files, strays = M.scan_channel(chdir)
    fin = [(sd, fn, T) for sd, fn, tmp, T in files if not tmp]
    tmp = [(sd, fn, T) for sd, fn, tmp_, T in files if tmp_]
    return fin, tmp, strays


def check_final_file(cfg, model, chdir, sd, fn, T, want_attrs=True, uuid=None, allow_fill=False):
    """raw inspection of one final-named data file against the model. -> list (prop, cls, msg)"""
    errs = []
    path = os.path.join(chdir, sd, fn)
    try:
        raw = M.read_raw_file(path)
    except Exception as e:  # noqa
        return [("C02", "final_file_unreadable", "%s/%s: %s: %s" % (sd, fn, type(e).__name__, str(e)[:160]))], None
    # placement
    if sd != cfg.subdir_name(T):
        errs.append(("C04", "wrong_subdir", "%s/%s: expected subdir %s" % (sd, fn, cfg.subdir_name(T))))
    for prop, msg in M.check_file_structure(cfg, T, raw):
        errs.append((prop, "file_structure", "%s/%s: %s" % (sd, fn, msg)))
    if errs:
        return errs, raw
    # content: every described sample must be a model sample with equal bits (or fill)
    for s, o, n in M.file_blocks(raw):
        if n <= 0:
            continue
        arr = raw["data"][o:o + n]
        e = M.compare_block(cfg, model, s, arr, allow_fill=allow_fill)
        if e:
            errs.append(("C02", "final_file_wrong_content", "%s/%s: %s" % (sd, fn, e)))
            break
        if cfg.plain_continuous:
            e = M.check_fill(cfg, model, s, arr)
            if e:
                errs.append(("C07", "fill_wrong", "%s/%s: %s" % (sd, fn, e)))
                break
    if want_attrs:
        exp = M.expected_prop_attrs(cfg)
        at = raw["attrs"]
        for k, v in exp.items():
            if k not in at:
                errs.append(("C06", "attr_missing", "%s/%s: attribute %s missing" % (sd, fn, k)))
            elif at[k] != v:
                errs.append(("C06", "attr_mismatch", "%s/%s: attribute %s=%r expected %r" % (sd, fn, k, at[k], v)))
        for k in ("digital_rf_time_description", "digital_rf_version", "uuid_str", "sequence_num",
                  "init_utc_timestamp", "computer_time"):
            if k not in at:
                errs.append(("C06", "attr_missing", "%s/%s: attribute %s missing" % (sd, fn, k)))
        if uuid is not None and at.get("uuid_str") != uuid:
            errs.append(("C06", "attr_mismatch", "%s/%s: uuid_str %r expected %r" % (sd, fn, at.get("uuid_str"), uuid)))
    return errs, raw


def model_of_files(cfg, model, fin):
    return model.restrict_to_files([T for _, _, T in fin])
