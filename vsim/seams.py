"""Python-level seams owned by the simulator (installed in the simulator / worker process).

* readdir order: os.listdir / os.scandir return a PRNG-chosen permutation for paths under the
  scratch prefix (POSIX leaves the order unspecified; several places in digital_rf use it
  unsorted).
* time.time: virtual clock (only where an engine asks for it).
* mutation hook: called before listdir/scandir of a path (lets an engine delete or fill a
  directory between the moment its name was enumerated and the moment it is listed).
"""
from __future__ import annotations

import os
import random
import time as _time

_real_listdir = os.listdir
_real_scandir = os.scandir
_real_time = _time.time

_state = {"prefix": None, "rng": None, "count": 0, "hook": None, "clock": None}


class _ScanIter:
    def __init__(self, entries):
        self._it = iter(entries)

    def __iter__(self):
        return self

    def __next__(self):
        return next(self._it)

    def close(self):
        self._it = iter(())

    def __enter__(self):
        return self

    def __exit__(self, *a):
        self.close()
        return False


def _under(path):
    p = _state["prefix"]
    if p is None:
        return False
    try:
        s = os.fspath(path)
    except TypeError:
        return False
    if isinstance(s, bytes):
        return False
    return os.path.abspath(s).startswith(p)


def _listdir(path="."):
    if _under(path):
        if _state["hook"]:
            _state["hook"]("listdir", os.path.abspath(os.fspath(path)))
        out = sorted(_real_listdir(path))
        _state["rng"].shuffle(out)
        _state["count"] += 1
        return out
    return _real_listdir(path)


def _scandir(path="."):
    if _under(path):
        if _state["hook"]:
            _state["hook"]("scandir", os.path.abspath(os.fspath(path)))
        with _real_scandir(path) as it:
            ents = sorted(it, key=lambda e: e.name)
        _state["rng"].shuffle(ents)
        _state["count"] += 1
        return _ScanIter(ents)
    return _real_scandir(path)


def _time_time():
    c = _state["clock"]
    if c is not None:
        return c()
    return _real_time()


def install(prefix, seed, hook=None, clock=None):
    _state.update(prefix=os.path.abspath(prefix), rng=random.Random(seed), count=0, hook=hook, clock=clock)
    os.listdir = _listdir
    os.scandir = _scandir
    if clock is not None:
        _time.time = _time_time


def set_hook(hook):
    _state["hook"] = hook


def uninstall():
    n = _state["count"]
    os.listdir = _real_listdir
    os.scandir = _real_scandir
    _time.time = _real_time
    _state.update(prefix=None, rng=None, hook=None, clock=None)
    return n


def permutations_done():
    return _state["count"]
