"""Reference model of a Digital RF channel (exact integer arithmetic, numpy value streams).

Deliberately *not* a transliteration of the C divide/modulus code: layout functions use
Python big integers; sample values are a keyed hash of (absolute index, subchannel,
component, salt-of-the-write-call) mapped onto the full bit range of the element type, so
every value read back is attributable to exactly one write call.
"""
from __future__ import annotations

import datetime
import math
import os
import re

import numpy as np

U64 = (1 << 64) - 1

# --------------------------------------------------------------------------------------
# configuration
# --------------------------------------------------------------------------------------

REAL_KINDS = ["i1", "i2", "i4", "i8", "u1", "u2", "u4", "u8", "f4", "f8"]
CSTYLES = ["real", "native", "struct", "interleaved"]

RATE_POOL = [
    (1, 1), (10, 1), (100, 1), (44100, 1), (10**6, 1), (2 * 10**6, 1), (200, 3),
    (10**6, 3), (10**8, 7), (123457, 1000), (1, 3), (3, 7), (2**32 - 1, 1),
    (25 * 10**6, 1), (1000, 1), (8000, 1), (1, 10), (999, 1000), (1001, 1000), (30, 1001),
]


class Cfg:
    """Channel configuration (all explicit, JSON round-trippable)."""

    FIELDS = (
        "kind", "order", "cstyle", "nsub", "n", "d", "file_ms", "subdir_s", "continuous",
        "compression", "checksum", "start", "uuid", "channel", "tz",
    )

    def __init__(self, **kw):
        self.kind = kw["kind"]            # e.g. "i2"
        self.order = kw["order"]          # "<" or ">"
        self.cstyle = kw["cstyle"]        # real|native|struct|interleaved
        self.nsub = int(kw["nsub"])
        self.n = int(kw["n"])
        self.d = int(kw["d"])
        self.file_ms = int(kw["file_ms"])
        self.subdir_s = int(kw["subdir_s"])
        self.continuous = bool(kw["continuous"])
        self.compression = int(kw["compression"])
        self.checksum = bool(kw["checksum"])
        self.start = int(kw["start"])     # absolute index of relative sample 0
        self.uuid = kw.get("uuid", "u0")
        self.channel = kw.get("channel", "ch0")
        self.tz = kw.get("tz")            # TZ of the recording process (names are defined in UTC whatever it is)

    def to_json(self):
        return {k: getattr(self, k) for k in self.FIELDS}

    # derived -------------------------------------------------------------------------
    @property
    def is_complex(self):
        return self.cstyle != "real"

    @property
    def ncomp(self):
        return 2 if self.is_complex else 1

    @property
    def itemsize(self):
        return int(self.kind[1:])

    @property
    def real_dtype(self):
        o = "|" if self.itemsize == 1 else self.order
        return np.dtype(o + self.kind)

    @property
    def needs_chunking(self):
        return bool(self.checksum or self.compression != 0 or not self.continuous)

    @property
    def plain_continuous(self):
        """continuous mode without compression/checksum: un-chunked, gap-filled files."""
        return not self.needs_chunking

    def writer_dtype(self):
        """dtype argument for DigitalRFWriter, and is_complex argument."""
        rd = self.real_dtype
        if self.cstyle == "real":
            return rd, False
        if self.cstyle == "native":
            assert self.kind in ("f4", "f8")
            return np.dtype(self.order + "c%d" % (2 * self.itemsize)), True
        if self.cstyle == "struct":
            return np.dtype([("r", rd), ("i", rd)]), True
        return rd, True  # interleaved

    # exact layout ----------------------------------------------------------------------
    def t_ms(self, k):
        return (k * self.d * 1000) // self.n

    def file_T(self, k):
        return self.t_ms(k) // self.file_ms * self.file_ms

    def first_of(self, T_ms):
        """first sample index whose floor-ms time is >= T_ms (== ceil(T*n/(1000 d)))."""
        return -((-T_ms * self.n) // (1000 * self.d))

    def window(self, T_ms):
        return self.first_of(T_ms), self.first_of(T_ms + self.file_ms) - 1

    def capacity(self, T_ms):
        a, b = self.window(T_ms)
        return b - a + 1

    def typical_capacity(self):
        return max(1, (self.file_ms * self.n) // (1000 * self.d))

    def subdir_sec(self, T_ms):
        return (T_ms // 1000) // self.subdir_s * self.subdir_s

    def subdir_name(self, T_ms):
        return subdir_name(self.subdir_sec(T_ms))

    def file_name(self, T_ms):
        return "rf@%d.%03d.h5" % (T_ms // 1000, T_ms % 1000)

    def relpath(self, T_ms):
        return os.path.join(self.subdir_name(T_ms), self.file_name(T_ms))

    def files_of(self, a, b):
        """file T values covering absolute range [a,b] (inclusive)"""
        T0, T1 = self.file_T(a), self.file_T(b)
        return range(T0, T1 + 1, self.file_ms)


def subdir_name(sec):
    dt = datetime.datetime(1970, 1, 1) + datetime.timedelta(seconds=sec)
    return dt.strftime("%Y-%m-%dT%H-%M-%S")


RE_SUBDIR = re.compile(r"^\d{4}-\d{2}-\d{2}T\d{2}-\d{2}-\d{2}$")
RE_RFFILE = re.compile(r"^(tmp\.)?rf@(\d+)\.(\d{3})\.h5$")


def parse_subdir(name):
    dt = datetime.datetime.strptime(name, "%Y-%m-%dT%H-%M-%S")
    return int((dt - datetime.datetime(1970, 1, 1)).total_seconds())


# --------------------------------------------------------------------------------------
# value streams
# --------------------------------------------------------------------------------------

_A = np.uint64(0x9E3779B97F4A7C15)
_B = np.uint64(0xC2B2AE3D27D4EB4F)
_C = np.uint64(0x165667B19E3779F9)
_M1 = np.uint64(0xBF58476D1CE4E5B9)
_M2 = np.uint64(0x94D049BB133111EB)


def _bits(cfg, idx, salt):
    """uint64 bit patterns, shape (N, nsub, ncomp); idx, salt: uint64 arrays shape (N,)"""
    with np.errstate(over="ignore"):
        base = idx.astype(np.uint64) * _A + salt.astype(np.uint64) * _B
        lane = (np.arange(cfg.nsub * cfg.ncomp, dtype=np.uint64) + np.uint64(1)) * _C
        x = base[:, None] + lane[None, :]
        x ^= x >> np.uint64(30)
        x *= _M1
        x ^= x >> np.uint64(27)
        x *= _M2
        x ^= x >> np.uint64(31)
    nb = cfg.itemsize * 8
    sel = (x >> np.uint64(58)) & np.uint64(63)
    mask = np.uint64(U64 if nb == 64 else (1 << nb) - 1)
    v = x & mask
    v = np.where(sel == 0, np.uint64(0), v)
    v = np.where(sel == 1, mask, v)
    v = np.where(sel == 2, np.uint64(1 << (nb - 1)), v)           # INT_MIN / -0.0 (== int fill)
    v = np.where(sel == 3, np.uint64((1 << (nb - 1)) - 1), v)      # INT_MAX / a NaN
    return v.reshape(len(idx), cfg.nsub, cfg.ncomp)


def bits_to_base(cfg, bits):
    """bit patterns (N,nsub,ncomp) uint64 -> contiguous array of cfg.real_dtype, same shape"""
    u = bits.astype("<u%d" % cfg.itemsize)
    le = u.view("<" + cfg.kind if cfg.itemsize > 1 else "|" + cfg.kind)
    return np.ascontiguousarray(le.astype(cfg.real_dtype))


def input_array(cfg, bits):
    """array to hand to rf_write for the given bit patterns"""
    base = bits_to_base(cfg, bits)
    N = base.shape[0]
    if cfg.cstyle == "real":
        return base.reshape(N, cfg.nsub)
    if cfg.cstyle == "interleaved":
        return base.reshape(N, cfg.nsub * 2)
    dt, _ = cfg.writer_dtype()
    return base.reshape(N, cfg.nsub * 2).view(dt).reshape(N, cfg.nsub)


def canon_bits(arr, nrows=None):
    """any array returned by the reader -> uint64 bit patterns, shape (N, -1)"""
    arr = np.ascontiguousarray(arr)
    dt = arr.dtype
    if dt.names:
        rd = dt[dt.names[0]]
    elif dt.kind == "c":
        bo = dt.byteorder
        rd = np.dtype((bo if bo in "<>" else "<") + "f%d" % (dt.itemsize // 2))
        if bo == "=":
            rd = np.dtype("f%d" % (dt.itemsize // 2))
    else:
        rd = dt
    n = arr.shape[0] if arr.ndim else 1
    flat = arr.reshape(-1).view(rd)
    le = flat.astype(rd.newbyteorder("<")) if rd.itemsize > 1 else flat
    u = le.view("<u%d" % rd.itemsize) if rd.itemsize > 1 else le.view("u1")
    return u.astype(np.uint64).reshape(n, -1)


def fill_bits(cfg):
    """documented missing-data value as bit pattern, or None for 'any NaN'."""
    k = cfg.kind[0]
    if k == "f":
        return None
    if k == "u":
        return 0
    return 1 << (cfg.itemsize * 8 - 1)


def is_nan_bits(cfg, bits):
    nb = cfg.itemsize * 8
    if nb == 32:
        e, m = 0x7F800000, 0x007FFFFF
    else:
        e, m = 0x7FF0000000000000, 0x000FFFFFFFFFFFFF
    b = bits.astype(np.uint64)
    return ((b & np.uint64(e)) == np.uint64(e)) & ((b & np.uint64(m)) != 0)


# --------------------------------------------------------------------------------------
# the model
# --------------------------------------------------------------------------------------

class RFModel:
    """What has been accepted by writer sessions on one channel (absolute indices)."""

    def __init__(self, cfg):
        self.cfg = cfg
        self.segs = []  # (abs_start, length, salt) non-overlapping, any order across sessions

    def copy(self):
        m = RFModel(self.cfg)
        m.segs = list(self.segs)
        return m

    def add(self, a, n, salt):
        if n > 0:
            self.segs.append((a, n, salt))

    def sorted_segs(self):
        return sorted(self.segs)

    def total(self):
        return sum(s[1] for s in self.segs)

    def bounds_written(self):
        if not self.segs:
            return None
        s = self.sorted_segs()
        return s[0][0], max(a + n - 1 for a, n, _ in s)

    def files(self):
        """sorted file T values that must exist (>= 1 slot written)"""
        out = set()
        c = self.cfg
        for a, n, _ in self.segs:
            out.update(c.files_of(a, a + n - 1))
        return sorted(out)

    def restrict_to_files(self, Ts):
        """model restricted to samples living in the given files"""
        c = self.cfg
        Ts = set(Ts)
        m = RFModel(c)
        for a, n, salt in self.segs:
            for T in c.files_of(a, a + n - 1):
                if T in Ts:
                    lo, hi = c.window(T)
                    s, e = max(a, lo), min(a + n - 1, hi)
                    if s <= e:
                        m.segs.append((s, e - s + 1, salt))
        return m

    def written_mask_salt(self, a, b):
        """(mask, salt) arrays over [a,b]"""
        N = b - a + 1
        mask = np.zeros(N, dtype=bool)
        salt = np.zeros(N, dtype=np.uint64)
        for s, n, sl in self.segs:
            lo, hi = max(s, a), min(s + n - 1, b)
            if lo <= hi:
                mask[lo - a:hi - a + 1] = True
                salt[lo - a:hi - a + 1] = sl
        return mask, salt

    def expected_blocks(self, a, b):
        """list of (start, length) blocks a read of [a,b] must return (merged)."""
        c = self.cfg
        ivs = []
        if c.plain_continuous:
            for T in self.files():
                lo, hi = c.window(T)
                lo, hi = max(lo, a), min(hi, b)
                if lo <= hi:
                    ivs.append((lo, hi))
        else:
            for s, n, _ in self.segs:
                lo, hi = max(s, a), min(s + n - 1, b)
                if lo <= hi:
                    ivs.append((lo, hi))
        ivs.sort()
        out = []
        for lo, hi in ivs:
            if out and out[-1][1] + 1 == lo:
                out[-1][1] = hi
            elif out and lo <= out[-1][1]:
                raise AssertionError("model overlap")
            else:
                out.append([lo, hi])
        return [(lo, hi - lo + 1) for lo, hi in out]

    def expected_bits(self, start, length):
        """(bits (N,nsub*ncomp) uint64, written-mask (N,)) for block [start,start+length)"""
        c = self.cfg
        mask, salt = self.written_mask_salt(start, start + length - 1)
        idx = (np.arange(length, dtype=np.uint64) + np.uint64(start & U64))
        bits = _bits(c, idx, salt).reshape(length, -1)
        return bits, mask

    def expected_bounds(self):
        c = self.cfg
        if not self.segs:
            return (None, None)
        if c.plain_continuous:
            Ts = self.files()
            return (c.window(Ts[0])[0], c.window(Ts[-1])[1])
        return self.bounds_written()


def row_is_fill(cfg, got):
    fb = fill_bits(cfg)
    if fb is None:
        return is_nan_bits(cfg, got).all(axis=1)
    return (got == np.uint64(fb)).all(axis=1)


def compare_block(cfg, model, start, arr, sub_channel=None, allow_fill=False):
    """Compare one returned block against the model. Returns None or error string.

    allow_fill (fault tiers only, un-chunked continuous files): a written slot may also read
    as the documented fill value (= the sample was lost, which other clauses account for)."""
    N = arr.shape[0]
    got = canon_bits(arr)
    exp, mask = model.expected_bits(start, N)
    if sub_channel is not None:
        exp = exp.reshape(N, cfg.nsub, cfg.ncomp)[:, sub_channel, :].reshape(N, -1)
    if got.shape != exp.shape:
        return "shape %s != expected %s at block %d" % (got.shape, exp.shape, start)
    w = mask
    if w.any():
        neq = (got[w] != exp[w]).any(axis=1)
        if allow_fill and cfg.plain_continuous:
            neq &= ~row_is_fill(cfg, got[w])
        bad = np.nonzero(neq)[0]
        if bad.size:
            i = int(np.nonzero(w)[0][bad[0]])
            return "sample %d: got bits %s expected %s" % (
                start + i, [hex(int(v)) for v in got[i]], [hex(int(v)) for v in exp[i]])
    if (~w).any():
        if not cfg.plain_continuous:
            i = int(np.nonzero(~w)[0][0])
            return "sample %d returned but never written" % (start + i)
        # fill slots: C07 decides their value, reported separately by check_fill
    return None


def check_fill(cfg, model, start, arr, sub_channel=None):
    """C07: unwritten slots of a returned block must hold the documented fill."""
    N = arr.shape[0]
    got = canon_bits(arr)
    _, mask = model.expected_bits(start, N)
    u = ~mask
    if not u.any():
        return None
    fb = fill_bits(cfg)
    g = got[u]
    if fb is None:
        ok = is_nan_bits(cfg, g)
    else:
        ok = g == np.uint64(fb)
    if not ok.all():
        r, col = np.argwhere(~ok)[0]
        i = int(np.nonzero(u)[0][r])
        return "unwritten slot %d lane %d reads bits %s, documented fill is %s" % (
            start + i, int(col), hex(int(g[r, col])), "NaN" if fb is None else hex(fb))
    return None


# --------------------------------------------------------------------------------------
# writer-side session model (relative indices, counters)
# --------------------------------------------------------------------------------------

class SessionModel:
    def __init__(self, cfg, chan_model):
        self.cfg = cfg
        self.m = chan_model
        self.next_avail = 0
        self.written = 0
        self.gaps = 0
        self.last_abs = None  # absolute index of most recently written sample

    def classify_write(self, rel, n):
        """valid iff rel >= next_avail (n >= 1) and the absolute index of the last sample fits in 64 bits"""
        if rel < 0 or self.cfg.start + rel + max(n, 1) - 1 >= 2**64:
            return False
        return rel >= self.next_avail

    def classify_blocks(self, g, b, n):
        if len(g) != len(b) or len(g) == 0:
            return False
        if g[0] < self.next_avail or b[0] != 0:
            return False
        for i in range(1, len(g)):
            if b[i] <= b[i - 1] or g[i] <= g[i - 1]:
                return False
            if b[i] - b[i - 1] > g[i] - g[i - 1]:
                return False
        if b[-1] >= n:
            return False
        if min(g) < 0 or min(b) < 0 or self.cfg.start + g[-1] + (n - b[-1]) - 1 >= 2**64:
            return False
        return True

    def apply_write(self, rel, n, salt):
        if n == 0:
            return self.next_avail  # nothing written: nothing skipped either
        self.gaps += rel - self.next_avail
        self.m.add(self.cfg.start + rel, n, salt)
        self.written += n
        self.next_avail = rel + n
        if n:
            self.last_abs = self.cfg.start + rel + n - 1
        return self.next_avail

    def apply_blocks(self, g, b, n, salt):
        for i in range(len(g)):
            ln = (b[i + 1] if i + 1 < len(g) else n) - b[i]
            self.gaps += g[i] - self.next_avail
            self.m.add(self.cfg.start + g[i], ln, salt)
            self.written += ln
            self.next_avail = g[i] + ln
            self.last_abs = self.cfg.start + g[i] + ln - 1
        return self.next_avail


def block_data_bits(cfg, g, b, n, salt):
    """bit patterns for a blocks call: data row j belongs to absolute index start+g[i]+(j-b[i])"""
    idx = np.zeros(n, dtype=np.uint64)
    for i in range(len(g)):
        hi = b[i + 1] if i + 1 < len(g) else n
        if hi > b[i]:
            idx[b[i]:hi] = np.arange(hi - b[i], dtype=np.uint64) + np.uint64((cfg.start + g[i]) & U64)
    return _bits(cfg, idx, np.full(n, salt, dtype=np.uint64))


def write_data_bits(cfg, rel, n, salt):
    idx = np.arange(n, dtype=np.uint64) + np.uint64((cfg.start + rel) & U64)
    return _bits(cfg, idx, np.full(n, salt, dtype=np.uint64))


# --------------------------------------------------------------------------------------
# generators
# --------------------------------------------------------------------------------------

def gen_cfg(rng, profile=None, cell=None):
    """Draw a channel configuration. `cell`=(kind, order, cstyle) forces the type cell."""
    p = profile or {}
    if cell:
        kind, order, cstyle = cell
    else:
        kind = rng.choice(REAL_KINDS)
        order = rng.choice("<>")
        cstyle = rng.choice(CSTYLES)
        if cstyle == "native" and kind[0] != "f":
            cstyle = rng.choice(["struct", "interleaved"])
    nsub = rng.choice([1, 1, 2, 3, 4])
    if rng.random() < 0.75:
        n, d = rng.choice(RATE_POOL)
    else:
        n = rng.randrange(1, 2**32)
        d = rng.randrange(1, min(10**9, (2**64 - 1) // n) + 1)
        if rng.random() < 0.5:
            n = rng.randrange(1, 5000)
            d = rng.randrange(1, 5000)
    g = math.gcd(n, d)
    if rng.random() < 0.9:
        n, d = n // g, d // g
    maxcap = p.get("maxcap", 2000)
    # target samples per file
    S = rng.choice([1, 2, 3, 5, 10, 30, 100, 400, maxcap])
    S = min(S, maxcap)
    file_ms = max(1, -((-S * 1000 * d) // n))  # ceil: at least S samples => >= 1 per file
    # capacity may exceed maxcap when 1 ms already holds more
    if rng.random() < 0.3:
        # round file cadence to something "nice"
        for nice in (1, 2, 5, 10, 20, 50, 100, 200, 400, 500, 1000, 2000, 5000, 10000, 60000, 3600000):
            if nice >= file_ms:
                file_ms = nice
                break
    m0 = 1000 // math.gcd(file_ms, 1000)
    subdir_s = file_ms * m0 // 1000 * rng.choice([1, 1, 2, 3, 10])
    cap = (file_ms * n) // (1000 * d)
    continuous = rng.random() < p.get("p_continuous", 0.5)
    compression = 0
    checksum = False
    if rng.random() < p.get("p_filters", 0.3):
        compression = rng.choice([0, 1, 4, 9])
        checksum = rng.random() < 0.5
    if cap > p.get("max_cont_cap", 20000) and continuous and not (compression or checksum):
        continuous = False
    # start: second uniformly between 1980 and 2100
    s0 = rng.randrange(315532800, 4102444800)
    start = (s0 * n) // d
    cfg = Cfg(kind=kind, order=order, cstyle=cstyle, nsub=nsub, n=n, d=d, file_ms=file_ms,
              subdir_s=subdir_s, continuous=continuous, compression=compression,
              checksum=checksum, start=start, uuid="sess0", channel="ch0")
    if rng.random() < 0.5:
        # snap to within +-2 samples of a file or subdirectory boundary
        T = cfg.file_T(start)
        if rng.random() < 0.4:
            T = cfg.subdir_sec(T) * 1000 + (cfg.subdir_s * 1000 if rng.random() < 0.5 else 0)
        else:
            T += cfg.file_ms * rng.choice([0, 1])
        cfg.start = max(0, cfg.first_of(T) + rng.choice([-2, -1, 0, 0, 1, 2]))
    # (indices between 2**63 and 2**64 are legal: n < 2**32 and a start before 2100 stay below 2**64)
    if cfg.start >= 2**64 - 2**40:
        cfg.start = cfg.start % (2**62)
    cfg.tz = rng.choice([None, None, None, "XYZ-05:30", "ABC+08", "UTC0", "EST5EDT,M3.2.0,M11.1.0"])
    if p.get("p_epoch_start") and rng.random() < p["p_epoch_start"]:
        cfg.start = rng.choice([0, 0, 1, 7])   # a recording time-tagged from the Unix epoch itself (index 0)
    return cfg


def _pick_len(rng, cfg, pos_abs, maxlen):
    """length choice biased to file boundaries; pos_abs = absolute index of first sample"""
    cap = cfg.typical_capacity()
    T = cfg.file_T(pos_abs)
    to_end = cfg.window(T)[1] - pos_abs + 1  # samples to end of this file
    choices = [1, 2, 3, to_end - 1, to_end, to_end + 1, cap - 1, cap, cap + 1,
               int(2.5 * cap), to_end + cap, rng.randrange(1, 2 * cap + 2), rng.randrange(1, 50)]
    n = rng.choice(choices)
    return max(1, min(int(n), maxlen))


def _pick_gap(rng, cfg, pos_abs):
    cap = cfg.typical_capacity()
    T = cfg.file_T(pos_abs)
    to_end = cfg.window(T)[1] - pos_abs + 1
    files_per_subdir = cfg.subdir_s * 1000 // cfg.file_ms
    choices = [0, 0, 0, 1, 2, max(0, to_end - 1), to_end, to_end + 1, to_end + cap, 3 * cap + 1,
               rng.randrange(0, cap + 2)]
    if files_per_subdir <= 50:
        choices.append(files_per_subdir * cap + rng.randrange(0, 3))
    return max(0, int(rng.choice(choices)))


def gen_writes(rng, cfg, nwrites, maxlen=4000, p_blocks=0.3, salt0=1, p_default_next=0.15,
               start_rel=None):
    """valid write ops with literal arguments. Returns list of op dicts."""
    ops = []
    pos = 0 if start_rel is None else start_rel  # relative next available
    salt = salt0
    first = True
    for _ in range(nwrites):
        if first:
            gap = _pick_gap(rng, cfg, cfg.start + pos) if rng.random() < 0.3 else 0
        else:
            gap = _pick_gap(rng, cfg, cfg.start + pos)
        first = False
        rel = pos + gap
        if rng.random() < p_blocks:
            nb = rng.randrange(1, 7)
            g, b = [], []
            cur_g, cur_b = rel, 0
            for i in range(nb):
                ln = _pick_len(rng, cfg, cfg.start + cur_g, max(1, maxlen // nb))
                g.append(cur_g)
                b.append(cur_b)
                cur_b += ln
                cur_g += ln
                if i + 1 < nb:
                    gp = _pick_gap(rng, cfg, cfg.start + cur_g)
                    if gp == 0 and rng.random() < 0.7:
                        gp = 1
                    cur_g += gp
            ops.append({"op": "wb", "g": g, "b": b, "len": cur_b, "salt": salt})
            if rng.random() < 0.2:
                # the index / data arrays handed to the writer are views with strides (a column of a table, every
                # second element of a buffer), not fresh C-contiguous arrays
                ops[-1]["layout"] = rng.choice(["strided", "column", "data_strided"])
            elif cfg.kind[0] == "f" and cfg.cstyle in ("struct", "interleaved") and rng.random() < 0.3:
                ops[-1]["layout"] = "as_complex"   # complex-float channel fed native complex64 / complex128 arrays
            pos = cur_g
        else:
            ln = _pick_len(rng, cfg, cfg.start + rel, maxlen)
            use_default = gap == 0 and rng.random() < p_default_next
            ops.append({"op": "w", "rel": None if use_default else rel, "len": ln, "salt": salt,
                        "_rel": rel})
            if cfg.cstyle == "interleaved" and cfg.nsub == 1 and rng.random() < 0.3:
                ops[-1]["layout"] = "flat_iq"
            elif rng.random() < 0.06:
                ops[-1]["layout"] = "data_strided"
            elif cfg.kind[0] == "f" and cfg.cstyle in ("struct", "interleaved") and rng.random() < 0.3:
                ops[-1]["layout"] = "as_complex"
            pos = rel + ln
        salt += 1
    return ops


# --------------------------------------------------------------------------------------
# raw inspection of data files (C04 / C06)
# --------------------------------------------------------------------------------------

PROP_ATTRS = (
    "H5Tget_class", "H5Tget_size", "H5Tget_order", "H5Tget_precision", "H5Tget_offset",
    "subdir_cadence_secs", "file_cadence_millisecs", "sample_rate_numerator",
    "sample_rate_denominator", "is_complex", "num_subchannels", "is_continuous", "epoch",
    "digital_rf_time_description", "digital_rf_version",
)


def _pyval(v):
    try:
        v = v.item()
    except AttributeError:
        pass
    if isinstance(v, bytes):
        v = v.decode("ascii")
    return v


def read_raw_file(path):
    import h5py

    with h5py.File(path, "r") as f:
        ds = f["rf_data"]
        idx = f["rf_data_index"][...]
        attrs = {k: _pyval(v) for k, v in ds.attrs.items()}
        return {"index": [(int(r[0]), int(r[1])) for r in idx], "len": int(ds.shape[0]),
                "ncols": int(ds.shape[1]) if ds.ndim > 1 else 1, "attrs": attrs,
                "data": ds[...], "chunks": ds.chunks}


def expected_prop_attrs(cfg):
    rd = cfg.real_dtype
    cls = 1 if rd.kind == "f" else 0
    # a numpy complex dtype given to the writer is stored with the host's (little endian) float type,
    # whatever the byte order of the array handed in (values are converted, not reinterpreted)
    order = 1 if (cfg.order == ">" and rd.itemsize > 1 and cfg.cstyle != "native") else 0
    return {
        "H5Tget_class": cls, "H5Tget_size": rd.itemsize, "H5Tget_order": order,
        "H5Tget_precision": rd.itemsize * 8, "H5Tget_offset": 0,
        "subdir_cadence_secs": cfg.subdir_s, "file_cadence_millisecs": cfg.file_ms,
        "sample_rate_numerator": cfg.n, "sample_rate_denominator": cfg.d,
        "is_complex": int(cfg.is_complex), "num_subchannels": cfg.nsub,
        "is_continuous": int(cfg.continuous), "epoch": "1970-01-01T00:00:00Z",
    }


def file_blocks(raw):
    """[(abs_start, offset, length)] described by the index of a raw file"""
    out = []
    idx = raw["index"]
    for i, (s, o) in enumerate(idx):
        stop = idx[i + 1][1] if i + 1 < len(idx) else raw["len"]
        out.append((s, o, stop - o))
    return out


def check_file_structure(cfg, T_ms, raw):
    """C06 structural invariants + C04 window containment for one file. list of (prop, msg)."""
    errs = []
    idx = raw["index"]
    lo, hi = cfg.window(T_ms)
    if len(idx) < 1:
        return [("C06", "index has no rows")]
    if idx[0][1] != 0:
        errs.append(("C06", "first offset %d != 0" % idx[0][1]))
    for i in range(1, len(idx)):
        if idx[i][0] <= idx[i - 1][0]:
            errs.append(("C06", "index sample column not strictly increasing at row %d" % i))
        if idx[i][1] <= idx[i - 1][1]:
            errs.append(("C06", "index offset column not strictly increasing at row %d" % i))
        if idx[i][0] - idx[i - 1][0] < idx[i][1] - idx[i - 1][1]:
            errs.append(("C06", "blocks overlap at row %d" % i))
    for s, o in idx:
        if o >= raw["len"]:
            errs.append(("C06", "offset %d beyond stored data (len %d)" % (o, raw["len"])))
    if raw["len"] > hi - lo + 1:
        errs.append(("C06", "file holds %d samples, window allows %d" % (raw["len"], hi - lo + 1)))
    for s, o, n in file_blocks(raw):
        if n > 0 and (s < lo or s + n - 1 > hi):
            errs.append(("C04", "block [%d,%d] outside file window [%d,%d] of T=%d" % (
                s, s + n - 1, lo, hi, T_ms)))
    if T_ms % cfg.file_ms != 0:
        errs.append(("C04", "file time %d not a multiple of cadence %d" % (T_ms, cfg.file_ms)))
    return errs


def scan_channel(chdir):
    """-> list of (subdir, fname, is_tmp, T_ms) for rf-grammar files; plus list of strays"""
    files, strays = [], []
    for sd in sorted(os.listdir(chdir)):
        p = os.path.join(chdir, sd)
        if os.path.isdir(p):
            if not RE_SUBDIR.match(sd):
                if sd != "metadata":
                    strays.append(sd + "/")
                continue
            for fn in sorted(os.listdir(p)):
                m = RE_RFFILE.match(fn)
                if m:
                    files.append((sd, fn, bool(m.group(1)), int(m.group(2)) * 1000 + int(m.group(3))))
                elif not fn.startswith("tmp."):
                    strays.append(os.path.join(sd, fn))
        elif sd != "drf_properties.h5" and not sd.startswith("tmp."):
            strays.append(sd)
    return files, strays
