"""E5/C17 - mirror fidelity, staged publication, no loss in move mode.

One lock-step node runs the whole scenario: real DigitalRFWriter / DigitalMetadataWriter sessions
grow the source tree round by round; after each round the events derived from it (finalizing
renames as moved events, metadata creations / modifications, properties files) - duplicated,
reordered, delayed to later rounds (late / stale) by the generator - are dispatched to the real
handler set of DigitalRFMirror(method) in a seeded handler order.  The simulator parks the node at
every file-system operation; during the mirror phases every boundary is a crash state for the
move / staging invariants.  rename / link from source to destination can be made to fail with
EXDEV (two "devices") so that the copy+unlink and copy fallbacks run.
"""
from __future__ import annotations

import copy
import datetime
import errno
import os
import shutil

import numpy as np

from .. import kernel as K
from .. import model_md as MD
from .. import model_rf as M
from .. import rfcheck as RC
from .. import rfnode as RN

_counter = [0]
PROPNAMES = ("drf_properties.h5", "dmd_properties.h5")


def _dt(ms):
    if ms is None:
        return None
    return datetime.datetime(1970, 1, 1, tzinfo=datetime.timezone.utc) + datetime.timedelta(milliseconds=ms)


# --------------------------------------------------------------------------------------
# generation
# --------------------------------------------------------------------------------------

def gen_plan(prop, tier, rng, i):
    method = ["move", "copy", "link"][i % 3]
    nch = rng.randrange(1, 3)
    chans = []
    for c in range(nch):
        cfg = M.gen_cfg(rng, {"maxcap": 60, "p_filters": 0.2})
        t = 0
        while cfg.typical_capacity() > 200 and t < 30:
            cfg = M.gen_cfg(rng, {"maxcap": 60, "p_filters": 0.2})
            t += 1
        cfg.channel = "ch%d" % c
        md = None
        if rng.random() < 0.7:
            md = {"n": cfg.n, "d": cfg.d, "file_s": rng.choice([1, 2, 10]), "subdir_s": 0, "prefix": "metadata"}
            md["subdir_s"] = md["file_s"] * rng.choice([1, 5])
        chans.append({"cfg": cfg.to_json(), "md": md})
    nrounds = rng.randrange(2, 5)
    rounds = []
    delivered_late = []
    state = []
    for ch in chans:
        cfg = M.Cfg(**ch["cfg"])
        m = M.RFModel(cfg)
        state.append({"cfg": cfg, "model": m, "sess": M.SessionModel(cfg, m), "final": set(), "closed": False,
                      "md_next": cfg.start, "md_files": set(), "salt": 1, "props_sent": False})
    for r in range(nrounds):
        world, evs = [], []
        last = r == nrounds - 1
        for ci, st in enumerate(state):
            cfg = st["cfg"]
            if st["closed"]:
                continue
            if not st["props_sent"]:
                world.append({"w": "open", "ch": ci})
                evs.append({"k": "created", "p": "%s/drf_properties.h5" % cfg.channel})
                if chans[ci]["md"]:
                    evs.append({"k": "created", "p": "%s/metadata/dmd_properties.h5" % cfg.channel})
                st["props_sent"] = True
            nops = rng.randrange(1, 4)
            ops = M.gen_writes(rng, cfg, nops, maxlen=max(2, int(2.5 * cfg.typical_capacity())), p_blocks=0.25,
                               salt0=st["salt"], p_default_next=0.0, start_rel=st["sess"].next_avail)
            for op in ops:
                nf = sum(len(cfg.files_of(a, n + a - 1)) for a, n in RN.op_samples(cfg, op))
                if nf > 6:
                    continue
                if RN.op_samples(cfg, op)[0][0] < cfg.start + st["sess"].next_avail:
                    continue
                st["salt"] += 1
                world.append({"w": "rf", "ch": ci, "op": op})
                RN.apply_op(st["sess"], op)
            # metadata for this channel
            mdc = chans[ci]["md"]
            if mdc and rng.random() < 0.8:
                mcfg = MD.MdCfg(**mdc)
                for _ in range(rng.randrange(1, 3)):
                    k = st["md_next"] + rng.randrange(0, 3 * max(1, (mcfg.file_s * mcfg.n) // mcfg.d))
                    st["md_next"] = k + 1
                    world.append({"w": "md", "ch": ci, "k": k, "v": rng.randrange(1000)})
                    rel = "%s/metadata/%s" % (cfg.channel, mcfg.relpath(mcfg.file_T(k)))
                    if rel in st["md_files"]:
                        evs.append({"k": "modified", "p": rel})
                    else:
                        evs.append({"k": "created", "p": rel})
                        evs.append({"k": "modified", "p": rel})
                        st["md_files"].add(rel)
                    if not st.get("fields_set"):
                        # the first metadata write appends the field list to dmd_properties.h5
                        st["fields_set"] = True
                        evs.append({"k": "modified", "p": "%s/metadata/dmd_properties.h5" % cfg.channel})
            if last or rng.random() < 0.15:
                world.append({"w": "close", "ch": ci})
                st["closed"] = True
            # RF files finalized so far
            files = st["model"].files()
            if files and not st["closed"]:
                openT = cfg.file_T(st["sess"].last_abs)
                fin = [T for T in files if T != openT]
            else:
                fin = files
            for T in fin:
                if T not in st["final"]:
                    st["final"].add(T)
                    rel = "%s/%s" % (cfg.channel, cfg.relpath(T))
                    d, b = os.path.split(rel)
                    if rng.random() < 0.7:
                        evs.append({"k": "moved", "p": d + "/tmp." + b, "q": rel})
                    else:
                        evs.append({"k": "created", "p": rel})
        # faulty channel: duplicate, reorder, delay to later rounds
        out = list(delivered_late)
        delivered_late = []
        for e in evs:
            r_ = rng.random()
            if r_ < 0.2:
                out.append(dict(e))
                out.append(dict(e))
            elif r_ < 0.3 and not last:
                delivered_late.append(dict(e))
                if rng.random() < 0.5:
                    out.append(dict(e))
            else:
                out.append(dict(e))
        if rng.random() < 0.5:
            # local reordering
            for _ in range(len(out)):
                a = rng.randrange(len(out)) if out else 0
                b = min(len(out) - 1, a + rng.randrange(0, 3)) if out else 0
                if out:
                    out[a], out[b] = out[b], out[a]
        if r > 0 and rng.random() < 0.3 and rounds and rounds[0]["events"]:
            out.append(dict(rng.choice(rounds[0]["events"])))  # a very late duplicate (stale in move mode)
        for e in out:
            e["order"] = rng.sample(range(3), 3)
        rounds.append({"world": world, "events": out})
    plan = {"engine": "evsim17", "method": method, "link": rng.random() < 0.3, "exdev": rng.random() < 0.4,
            "include_drf": rng.random() < 0.9, "include_dmd": rng.random() < 0.9, "chans": chans, "rounds": rounds,
            "existing_first": rng.random() < 0.25, "window": None}
    if not plan["include_drf"] and not plan["include_dmd"]:
        plan["include_drf"] = True
    r_ = rng.random()
    if r_ < 0.2:
        # the publishing rename tmp.X -> X inside the destination fails once (EIO)
        plan["fail_publish_nth"] = rng.randrange(1, 12)
    elif r_ < 0.45:
        # the mirror process is killed at a seeded FS-op boundary of one of its phases; a new mirror process is
        # started, replays the files that exist (start()) and receives all events delivered so far again
        plan["mirror_crash"] = {"round": rng.randrange(0, nrounds), "op": rng.randrange(0, 40)}
    if "fail_publish_nth" not in plan and "mirror_crash" not in plan and rng.random() < 0.2:
        # a consumer works on the destination while the mirror runs (a second, move-mode mirror further down the
        # chain, or a ringbuffer): between rounds it takes away every complete file and removes emptied directories
        plan["consumer"] = True
    elif rng.random() < 0.3:
        # the destination already holds files under some of the names that are about to be mirrored (left by an
        # earlier mirror of a recording that has since been redone): same size or shorter, other content, older
        plan["stale_dest"] = {"salt": rng.randrange(3), "kind": rng.choice(["same_size", "same_size", "shorter"])}
    if rng.random() < 0.3:
        cfg = state[0]["cfg"]
        files = state[0]["model"].files()
        if files:
            a = rng.choice(files) + rng.choice([0, 0, 1, -1])
            b = a + rng.choice([0, cfg.file_ms, 5 * cfg.file_ms, 10**9])
            plan["window"] = [a, b]
    return plan


def shrink_candidates(plan):
    rs = plan["rounds"]
    for ri in range(len(rs)):
        ev = rs[ri]["events"]
        for i in range(len(ev)):
            p = copy.deepcopy(plan)
            del p["rounds"][ri]["events"][i]
            yield p
    if len(plan["chans"]) > 1:
        for drop in range(len(plan["chans"])):
            p = copy.deepcopy(plan)
            for r in p["rounds"]:
                r["world"] = [w for w in r["world"] if w["ch"] != drop]
                r["events"] = [e for e in r["events"] if not e["p"].startswith("ch%d/" % drop)]
            yield p
    for flag in ("exdev", "link", "existing_first"):
        if plan.get(flag):
            p = copy.deepcopy(plan)
            p[flag] = False
            yield p


# --------------------------------------------------------------------------------------
# the node: recorder world + mirror
# --------------------------------------------------------------------------------------

def _child(plan, src, dest):
    def fn(report):
        import digital_rf
        from digital_rf import mirror as mirmod
        from watchdog import events as we

        writers, mdwriters, cfgs = {}, {}, {}
        win = plan.get("window")
        mir = mirmod.DigitalRFMirror(src, dest, method=plan["method"], link=plan["link"],
                                     starttime=_dt(win[0]) if win else None, endtime=_dt(win[1]) if win else None,
                                     include_drf=plan["include_drf"], include_dmd=plan["include_dmd"])
        mir.observer.start = lambda: None  # the observer / inotify threads are the stubbed part
        for ri, rnd in enumerate(plan["rounds"]):
            report({"ev": "phase", "ph": "world", "r": ri})
            report.sync("world")
            for w in rnd["world"]:
                ci = w["ch"]
                if w["w"] == "open":
                    cfg = M.Cfg(**plan["chans"][ci]["cfg"])
                    cfgs[ci] = cfg
                    os.makedirs(os.path.join(src, cfg.channel), exist_ok=True)
                    writers[ci] = RN.open_writer(src, cfg)
                    mdc = plan["chans"][ci]["md"]
                    if mdc:
                        mdir = os.path.join(src, cfg.channel, "metadata")
                        os.makedirs(mdir, exist_ok=True)
                        mdwriters[ci] = digital_rf.DigitalMetadataWriter(mdir, mdc["subdir_s"], mdc["file_s"],
                                                                         mdc["n"], mdc["d"], mdc["prefix"])
                elif w["w"] == "rf":
                    try:
                        RN.do_op(writers[ci], cfgs[ci], w["op"])
                        report({"ev": "rf_ok", "ch": ci, "salt": w["op"]["salt"]})
                    except Exception as e:  # noqa
                        report({"ev": "rf_fail", "ch": ci, "salt": w["op"]["salt"], "exc": type(e).__name__})
                elif w["w"] == "md":
                    try:
                        mdwriters[ci].write(w["k"], {"v": w["v"], "idx": np.int64(w["k"])})
                    except Exception as e:  # noqa
                        report({"ev": "md_fail", "ch": ci, "k": w["k"], "exc": type(e).__name__})
                elif w["w"] == "close":
                    writers[ci].close()
            report({"ev": "phase", "ph": "mirror", "r": ri})
            report.sync("mirror")
            if ri == 0 and plan.get("existing_first"):
                # what a listing with the mirror's window and kinds selects right now (for a metadata channel that
                # includes the file in force at starttime); start() must mirror all of it
                lst = digital_rf.list_drf.lsdrf(src, starttime=mir.starttime, endtime=mir.endtime,
                                                include_drf=plan["include_drf"], include_dmd=plan["include_dmd"],
                                                include_drf_properties=False, include_dmd_properties=False)
                report({"ev": "start_listing", "files": [os.path.relpath(p_, src) for p_ in lst]})
                mir.start()
                report({"ev": "existing_replayed"})
            for e in rnd["events"]:
                p = os.path.join(src, e["p"])
                if e["k"] == "moved":
                    ev = we.FileMovedEvent(p, os.path.join(src, e["q"]))
                elif e["k"] == "created":
                    ev = we.FileCreatedEvent(p)
                else:
                    ev = we.FileModifiedEvent(p)
                # handlers by role, not by list position (watchdog keeps the handlers of a watch in a set, so the
                # order in which they see an event is arbitrary; the plan chooses it)
                roles = {}
                for h in mir.event_handlers:
                    r_ = "rb" if hasattr(h, "records") else ("move" if getattr(h, "mirror_fun", None) is shutil.move else "copy")
                    roles[r_] = h
                for hi in e.get("order", [0, 1, 2]):
                    r_ = ("copy", "move", "rb")[hi]
                    if r_ in roles:
                        report({"ev": "to_handler", "role": r_, "p": e.get("q", e["p"])})
                        roles[r_].dispatch(ev)
                report({"ev": "dispatched", "p": e.get("q", e["p"])})
        report({"ev": "phase", "ph": "end", "r": len(plan["rounds"])})
        report.sync("end")
    return fn


def _child_restart(plan, src, dest, upto_round):
    def fn(report):
        from digital_rf import mirror as mirmod
        from watchdog import events as we

        win = plan.get("window")
        mir = mirmod.DigitalRFMirror(src, dest, method=plan["method"], link=plan["link"],
                                     starttime=_dt(win[0]) if win else None, endtime=_dt(win[1]) if win else None,
                                     include_drf=plan["include_drf"], include_dmd=plan["include_dmd"])
        mir.observer.start = lambda: None
        report({"ev": "phase", "ph": "mirror", "r": upto_round})
        report.sync("mirror")
        import digital_rf

        lst = digital_rf.list_drf.lsdrf(src, starttime=mir.starttime, endtime=mir.endtime,
                                        include_drf=plan["include_drf"], include_dmd=plan["include_dmd"],
                                        include_drf_properties=False, include_dmd_properties=False)
        report({"ev": "start_listing", "files": [os.path.relpath(p_, src) for p_ in lst]})
        mir.start()
        report({"ev": "existing_replayed"})
        roles = {}
        for h in mir.event_handlers:
            r_ = "rb" if hasattr(h, "records") else ("move" if getattr(h, "mirror_fun", None) is shutil.move else "copy")
            roles[r_] = h
        for rnd in plan["rounds"][:upto_round + 1]:
            for e in rnd["events"]:
                p = os.path.join(src, e["p"])
                if e["k"] == "moved":
                    ev = we.FileMovedEvent(p, os.path.join(src, e["q"]))
                elif e["k"] == "created":
                    ev = we.FileCreatedEvent(p)
                else:
                    ev = we.FileModifiedEvent(p)
                for hi in e.get("order", [0, 1, 2]):
                    r_ = ("copy", "move", "rb")[hi]
                    if r_ in roles:
                        report({"ev": "to_handler", "role": r_, "p": e.get("q", e["p"])})
                        roles[r_].dispatch(ev)
                report({"ev": "dispatched", "p": e.get("q", e["p"])})
        report({"ev": "phase", "ph": "end", "r": upto_round})
        report.sync("end")
    return fn


# --------------------------------------------------------------------------------------
# oracle
# --------------------------------------------------------------------------------------

def _walk_files(top):
    out = {}
    for dp, dns, fns in os.walk(top):
        for fn in fns:
            p = os.path.join(dp, fn)
            out[os.path.relpath(p, top)] = p
    return out


def _is_rf(rel):
    return M.RE_RFFILE.match(os.path.basename(rel)) is not None and "/metadata/" not in "/" + rel


def _name_ms(rel):
    b = os.path.basename(rel)
    m = M.RE_RFFILE.match(b)
    if m:
        return int(m.group(2)) * 1000 + int(m.group(3))
    m = MD.RE_MDFILE.match(b)
    if m:
        return int(m.group("secs")) * 1000
    return None


def run_plan(prop, plan):
    res = K.RunResult()
    _counter[0] += 1
    sc = K.new_scratch("ev17-%d-%d" % (os.getpid(), _counter[0]))
    tree = os.path.join(sc, "tree")
    src, dest = os.path.join(tree, "src"), os.path.join(tree, "dest")
    os.makedirs(src)
    os.makedirs(dest)
    method = plan["method"]
    win = plan.get("window")
    src_final = {}       # rel -> sha of finalized RF files (never change again)
    versions = {}        # rel -> set of shas seen for metadata / properties files at phase ends
    pending_hash = []
    delivered = set()
    phase = ["init", 0]
    rf_fail = [False]
    existing_replayed = [False]
    replayed = set()
    expired_uncopied = set()
    expired_although_presented = set()
    start_listed = set()    # what the listing selected when start() replayed the existing files
    given_to_copy = {}      # rel -> round in which the copy handler was last given an event for it
    modified_round = {}     # rel -> round after which the source file last changed

    def viol(cls, msg, **sig):
        res.violate("C17", cls, "[%s round %d, %s] %s" % (phase[0], phase[1], method, msg), method=method, **sig)

    def selected(rel):
        b = os.path.basename(rel)
        if b == "drf_properties.h5":
            return plan["include_drf"]
        if b == "dmd_properties.h5":
            return plan["include_dmd"]
        if b.startswith("tmp."):
            return False
        ms = _name_ms(rel)
        if ms is None:
            return False
        if _is_rf(rel):
            if not plan["include_drf"]:
                return False
        elif not plan["include_dmd"]:
            return False
        if win and not (win[0] <= ms <= win[1]):
            return False
        return True

    def snapshot_versions():
        for rel, p in _walk_files(src).items():
            b = os.path.basename(rel)
            if b in PROPNAMES or (MD.RE_MDFILE.match(b) and not b.startswith("tmp.") and not _is_rf(rel)):
                sha = K.file_sha(p)
                if not versions.get(rel) or versions[rel][-1] != sha:
                    modified_round[rel] = phase[1]
                versions.setdefault(rel, []).append(sha)

    def check_boundary(op):
        """invariants that must hold at every instant of a mirror phase"""
        res.evals += 1
        dfiles = _walk_files(dest)
        # staged publication: a final-named destination file is always a complete copy
        for rel, p in dfiles.items():
            b = os.path.basename(rel)
            if b.startswith("tmp."):
                continue
            if _is_rf(rel):
                if rel not in src_final:
                    viol("dest_file_unknown", "destination has %s which is not a finalized source file" % rel)
                elif rel in stale and (phase[0] in ("mirror", "after_kill") or rel in failed_publish or crashed[0]) \
                        and K.file_sha(p) == stale[rel]:
                    pass  # the planted stale file, not yet replaced
                elif K.file_sha(p) != src_final[rel]:
                    viol("dest_file_partial", "destination %s differs from the finalized source file (next op: %s)" % (
                        rel, op.sig() if op else "-"), exdev=plan["exdev"])
            elif rel in versions or os.path.basename(rel) in PROPNAMES or MD.RE_MDFILE.match(b):
                sha = K.file_sha(p)
                if sha not in versions.get(rel, []):
                    viol("dest_file_partial", "destination %s is not a complete copy of any version of the source file "
                         "(next op: %s)" % (rel, op.sig() if op else "-"), exdev=plan["exdev"], md=True)
        # no loss: an intact copy of every finalized RF file exists somewhere
        sfiles = _walk_files(src)
        for rel, sha in src_final.items():
            cands = [sfiles.get(rel), dfiles.get(rel),
                     dfiles.get(os.path.join(os.path.dirname(rel), "tmp." + os.path.basename(rel)))]
            ok = any(c is not None and K.file_sha(c) == sha for c in cands) or consumed.get(rel) == sha
            if not ok:
                viol("rf_file_lost", "no intact copy of %s in source or destination (next op: %s)" % (
                    rel, op.sig() if op else "-"), exdev=plan["exdev"])

    stale = {}   # rel -> sha of the planted stale destination file
    consumed = {}  # rel -> sha of the complete copy a downstream consumer took out of the destination

    def consume():
        for rel, p_ in sorted(_walk_files(dest).items()):
            b_ = os.path.basename(rel)
            if b_.startswith("tmp."):
                continue
            sha = K.file_sha(p_)
            ok_ = (sha == src_final.get(rel)) if _is_rf(rel) else (sha in versions.get(rel, []))
            if not ok_:
                continue   # (left where it is: the invariants will speak about it)
            consumed[rel] = sha
            os.remove(p_)
        for dp_, dns_, fns_ in os.walk(dest, topdown=False):
            if dp_ != dest and not os.listdir(dp_):
                os.rmdir(dp_)
        res.fault("destination_consumed_between_rounds")

    def plant_stale(r):
        import zlib

        sd = plan.get("stale_dest")
        if not sd or r >= len(plan["rounds"]):
            return
        for e in plan["rounds"][r]["events"]:
            rel = e.get("q", e["p"])
            if not _is_rf(rel) or rel in stale or rel not in src_final or not selected(rel):
                continue
            sp, dp = os.path.join(src, rel), os.path.join(dest, rel)
            if not os.path.exists(sp) or os.path.lexists(dp) or (zlib.crc32(rel.encode()) + sd["salt"]) % 3:
                continue
            data = bytearray(open(sp, "rb").read())
            for j in range(len(data) - 1, max(0, len(data) - 1 - max(8, len(data) // 4)), -1):
                data[j] ^= 0x5A
            if sd["kind"] == "shorter":
                data = data[: max(1, len(data) // 2)]
            os.makedirs(os.path.dirname(dp), exist_ok=True)
            with open(dp, "wb") as f:
                f.write(bytes(data))
            st = os.stat(sp)
            os.utime(dp, ns=(st.st_atime_ns - 10**12, st.st_mtime_ns - 10**12))
            stale[rel] = K.file_sha(dp)
            res.fault("stale_destination_file_" + sd["kind"])

    crash = plan.get("mirror_crash")
    crashed = [False]
    npub = [0]
    failed_publish = set()
    mirror_ops = [0]

    def drive(node):
        k = 0
        try:
            while True:
                ev = node.step()
                if ev is None:
                    break
                if isinstance(ev, dict):
                    e = ev.get("ev")
                    if e == "phase":
                        phase[0], phase[1] = ev["ph"], ev["r"]
                    elif e == "dispatched":
                        delivered.add(ev["p"])
                    elif e == "to_handler":
                        if ev["role"] == "copy":
                            given_to_copy[ev["p"]] = phase[1]
                    elif e == "start_listing":
                        start_listed.update(ev["files"])
                    elif e == "rf_fail":
                        rf_fail[0] = True
                    elif e == "existing_replayed":
                        existing_replayed[0] = True
                        replayed.update(src_final)
                        replayed.update(versions)
                    elif e == "child_exception":
                        raise K.HarnessError("child exception: %s" % ev)
                    continue
                res.trace.add(k, phase[0], ev.kind, ev.p1, ev.p2)
                k += 1
                # hash files finalized by the previous op
                for rel in pending_hash:
                    p = os.path.join(src, rel)
                    if os.path.exists(p) and rel not in src_final:
                        src_final[rel] = K.file_sha(p)
                del pending_hash[:]
                if ev.kind == "sync":
                    if ev.p1 in ("mirror", "end"):
                        snapshot_versions()
                    if ev.p1 == "mirror" and not crashed[0]:
                        plant_stale(phase[1])
                        if plan.get("consumer") and phase[1] >= 1:
                            consume()
                    if ev.p1 == "end":
                        check_boundary(None)
                    node.go()
                    continue
                if phase[0] == "mirror":
                    check_boundary(ev)
                    if crash and not crashed[0] and phase[1] == crash["round"]:
                        if mirror_ops[0] == crash["op"]:
                            crashed[0] = True
                            res.fault("mirror_process_sigkill")
                            node.kill()
                            return k
                        mirror_ops[0] += 1
                    if ev.kind == "unlink" and ev.p1.startswith("src/") and not _is_rf(ev.p1) \
                            and MD.RE_MDFILE.match(os.path.basename(ev.p1)):
                        # the metadata ringbuffer (count=1) is about to delete a source metadata file:
                        # has its current content been copied?
                        rel = os.path.relpath(ev.p1, "src")
                        if not selected(rel) and rel not in start_listed:
                            # a source metadata file outside the mirror's kinds / window is none of the mirror's
                            # business: it is neither copied nor may it be removed
                            viol("unselected_source_file_deleted", "the mirror deletes %s from the source although it is "
                                 "outside the selected kinds / window" % rel, md=True)
                        sp, dp = os.path.join(src, rel), os.path.join(dest, rel)
                        if os.path.exists(sp) and not (os.path.exists(dp) and K.file_sha(dp) == K.file_sha(sp)):
                            if rel in given_to_copy and given_to_copy[rel] >= modified_round.get(rel, 0):
                                # the copy handler HAS been given an event for the current content and still the
                                # destination is not current: not the known finding
                                expired_although_presented.add(rel)
                            else:
                                expired_uncopied.add(rel)
                                res.probe("metadata_expired_before_latest_copy")
                # cross-device behaviour (link onto an existing name fails with EEXIST before the kernel looks at
                # the devices, so that case is left to the real call)
                if plan["exdev"] and ev.kind in ("rename", "link") and ev.p1.startswith("src/") and ev.p2.startswith("dest/") \
                        and not (ev.kind == "link" and os.path.lexists(os.path.join(tree, ev.p2))):
                    res.fault("EXDEV_" + ev.kind)
                    node.fail(errno.EXDEV)
                    continue
                # the publishing rename inside the destination fails once
                if ev.kind == "rename" and ev.p1.startswith("dest/") and ev.p2.startswith("dest/") and \
                        os.path.basename(ev.p1) == "tmp." + os.path.basename(ev.p2):
                    npub[0] += 1
                    if plan.get("fail_publish_nth") == npub[0]:
                        res.fault("EIO_publishing_rename")
                        failed_publish.add(os.path.relpath(ev.p2, "dest"))
                        node.fail(errno.EIO)
                        continue
                node.go()
                if ev.kind == "rename" and ev.p1.startswith("src/") and ev.p2.startswith("src/"):
                    b1, b2 = os.path.basename(ev.p1), os.path.basename(ev.p2)
                    if b1 == "tmp." + b2 and M.RE_RFFILE.match(b2):
                        pending_hash.append(os.path.relpath(ev.p2, "src"))
        finally:
            node.kill()
        return k

    try:
        node = K.Node(tree, _child(plan, src, dest), log_path=os.path.join(sc, "node.log"))
        k = drive(node)
        if crashed[0]:
            # what the dead process left behind is examined, then a new mirror process takes over
            phase[0] = "after_kill"
            check_boundary(None)
            node = K.Node(tree, _child_restart(plan, src, dest, crash["round"]), log_path=os.path.join(sc, "node2.log"))
            k += drive(node)
            phase[0] = "after_restart"
            check_boundary(None)
            if node.died_of_signal():
                viol("node_died", "restarted mirror process died with status %s" % node.died_of_signal())
            res.stats["recorder_steps"] = k
            res.nontrivial = len(src_final) >= 2
            res.probe("mirror_restarted_after_kill")
            res.probe("method_" + method + ("_exdev" if plan["exdev"] else ""))
            return res
        if node.died_of_signal():
            viol("node_died", "mirror/recorder process died with status %s" % node.died_of_signal())
            return res
        if rf_fail[0]:
            res.probe("unexpected_valid_write_failure")
            return res
        # ---- quiescence
        phase[0] = "quiescent"
        dfiles = _walk_files(dest)
        sfiles = _walk_files(src)
        for rel, p in dfiles.items():
            if os.path.basename(rel).startswith("tmp."):
                final_rel = os.path.join(os.path.dirname(rel), os.path.basename(rel)[4:])
                if final_rel in failed_publish:
                    res.probe("staged_copy_kept_after_failed_publish")
                    continue
                viol("tmp_left_in_dest", "staging file %s left in the destination" % rel)
        want = set()
        for rel in src_final:
            if selected(rel) and (rel in delivered or rel in replayed):
                want.add(rel)
        for rel in versions:
            if selected(rel) and (rel in delivered or rel in replayed):
                want.add(rel)
        for rel in start_listed:
            if (rel in src_final or rel in versions) and not os.path.basename(rel).startswith("tmp."):
                if rel not in want:
                    res.probe("start_listing_selects_file_outside_name_window")
                want.add(rel)
        for rel in sorted(want):
            if rel in failed_publish:
                continue  # its publication was made to fail; the no-loss invariant has been checked at every boundary
            if rel not in dfiles and rel in consumed:
                if method != "move" and consumed[rel] != (src_final.get(rel) or versions[rel][-1]) and not _is_rf(rel) and \
                        not (rel in start_listed and not selected(rel)) and \
                        given_to_copy.get(rel, -1) >= modified_round.get(rel, 0) and rel not in expired_uncopied:
                    viol("mirrored_content_differs", "%s was delivered downstream in an older version and its later "
                         "modification (event delivered) never arrived" % rel, md=True, md_expired_before_copy=False)
                continue
            if rel not in dfiles:
                viol("not_mirrored", "%s (events delivered) is missing in the destination%s" % (
                    rel, " - the metadata ringbuffer deleted it from the source before it was copied" if rel in expired_uncopied else ""),
                    md=not _is_rf(rel), md_expired_before_copy=rel in expired_uncopied)
                continue
            sha = K.file_sha(dfiles[rel])
            exp = src_final.get(rel) or versions[rel][-1]
            if rel in start_listed and not selected(rel) and sha in versions.get(rel, []):
                # the forward-fill metadata file from before the window: mirrored by start() as it was then; later
                # appends to it carry a name time outside the window and are filtered like any other event
                res.probe("prewindow_metadata_file_mirrored_as_of_start")
                continue
            if sha != exp:
                viol("mirrored_content_differs", "%s in the destination differs from the (latest) source content%s" % (
                    rel, " - the metadata ringbuffer deleted it from the source before its last version was copied"
                    if rel in expired_uncopied else ""),
                    md=not _is_rf(rel), md_expired_before_copy=rel in expired_uncopied)
        for rel in dfiles:
            if not os.path.basename(rel).startswith("tmp.") and not selected(rel) and _name_ms(rel) is not None:
                if not (plan["include_dmd"] and not _is_rf(rel) and win):
                    viol("unselected_file_mirrored", "%s is outside the selected kinds / window" % rel)
        if method == "move":
            # the newest metadata file of every channel stays in the source
            for ch in plan["chans"]:
                if not ch["md"]:
                    continue
                cname = ch["cfg"]["channel"]
                mds = sorted((r for r in versions if r.startswith(cname + "/metadata/") and MD.RE_MDFILE.match(os.path.basename(r))
                              and os.path.basename(r) not in PROPNAMES), key=_name_ms)
                if mds and mds[-1] not in sfiles:
                    viol("newest_metadata_removed", "newest metadata file %s is gone from the source" % mds[-1])
        # reader on the destination == the RF files that were mirrored
        stale_left = [r for r in stale if r in dfiles and K.file_sha(dfiles[r]) == stale[r]]
        if plan.get("consumer"):
            res.probe("consumer_on_destination")   # (the reader comparison needs the whole channel in one place)
        elif stale_left:
            res.probe("stale_destination_kept_after_failed_publish")
        elif plan["include_drf"] and any(_is_rf(r) for r in dfiles):
            _reader_check(plan, dest, dfiles, src_final, viol, res)
        nrf = len([r for r in want if _is_rf(r)])
        res.stats["rf_files_mirrored"] = nrf
        res.stats["md_files_mirrored"] = len(want) - nrf
        res.stats["recorder_steps"] = k
        res.nontrivial = nrf >= 2
        res.probe("method_" + method + ("_exdev" if plan["exdev"] else ""))
        return res
    finally:
        if not os.environ.get("VSIM_KEEP"):
            shutil.rmtree(sc, ignore_errors=True)


def _reader_check(plan, dest, dfiles, src_final, viol, res):
    import digital_rf

    try:
        rd = digital_rf.DigitalRFReader(dest)
    except Exception as e:  # noqa
        if any(os.path.basename(r) == "drf_properties.h5" for r in dfiles):
            viol("dest_reader_fails", "DigitalRFReader(dest) raised %s: %s" % (type(e).__name__, str(e)[:160]))
        return
    for ch in plan["chans"]:
        cfg = M.Cfg(**ch["cfg"])
        if cfg.channel not in rd.get_channels():
            continue
        fins = [r for r in dfiles if r.startswith(cfg.channel + "/") and _is_rf(r) and not os.path.basename(r).startswith("tmp.")]
        if not fins:
            continue
        # expected content: raw blocks of those files
        exp_blocks = []
        for r in fins:
            raw = M.read_raw_file(dfiles[r])
            for s, o, n in M.file_blocks(raw):
                if n > 0:
                    exp_blocks.append((s, M.canon_bits(raw["data"][o:o + n])))
        exp_blocks.sort(key=lambda x: x[0])
        merged = []
        for s, b in exp_blocks:
            if merged and merged[-1][0] + merged[-1][1].shape[0] == s:
                merged[-1] = (merged[-1][0], np.concatenate([merged[-1][1], b]))
            else:
                merged.append((s, b))
        try:
            b0, b1 = rd.get_bounds(cfg.channel)
            got = [(int(k), M.canon_bits(v)) for k, v in rd.read(b0, b1, cfg.channel).items()]
        except Exception as e:  # noqa
            viol("dest_reader_fails", "reading the destination raised %s: %s" % (type(e).__name__, str(e)[:160]))
            continue
        ok = len(got) == len(merged) and all(g[0] == m[0] and g[1].shape == m[1].shape and (g[1] == m[1]).all()
                                             for g, m in zip(got, merged))
        if not ok:
            viol("dest_reads_differently", "reader on the destination returns %s, files hold %s" % (
                [(s, b.shape[0]) for s, b in got][:5], [(s, b.shape[0]) for s, b in merged][:5]))
        res.probe("dest_reader_compared")


COMPONENTS = {
    "real": ["mirror.DigitalRFMirror handler set (copy / move / link-with-fallback handlers, metadata ringbuffer)",
             "DigitalRFMirror.start() replay of existing files (observer.start stubbed)", "shutil.move/copy2, os.link, os.rename "
             "through libc", "DigitalRFWriter + C library, DigitalMetadataWriter (source)", "DigitalRFReader on the destination", "tmpfs"],
    "stubbed": ["watchdog Observer / emitter / inotify and DirWatcher (events built by the generator from the model of the "
                "recording)", "cross-device boundary (EXDEV injected on rename/link from source to destination)", "join() loop"],
}
