"""E3 mdsim - Digital Metadata (+ RF) at call granularity.

Histories of metadata / RF write calls interleaved with reader construction and queries on
old and new reader objects, with a virtual wall clock that jumps (so every file is "older than
the file cadence" whenever the metadata reader's deleting branch looks) and a fingerprint of the
whole tree around every read-only call.  Serves C12 C13 C20.
"""
from __future__ import annotations

import copy
import math
import os
import shutil
import time as _time

import numpy as np

from .. import kernel as K
from .. import model_md as MD
from .. import model_rf as M
from .. import rfnode as RN
from .. import seams

PROPS = ("C12", "C13", "C20")
_counter = [0]

MD_RATES = [(1, 1), (10, 1), (100, 1), (200, 3), (10**6, 3), (10**8, 7), (1, 3), (3, 7), (123457, 1000),
            (44100, 1), (1, 10), (999, 1000), (1001, 1000), (30, 1001), (10**6, 1),
            # numerators beyond 2**32 ("all rational rates"): index * denominator approaches / exceeds 2**64
            (12 * 10**9, 1001), (36 * 10**9, 1001), (2**32 - 1, 1)]


# --------------------------------------------------------------------------------------
# generation
# --------------------------------------------------------------------------------------

def _gen_leaf(rng):
    t = rng.choice(["int", "float", "str", "np", "arr", "arr", "none", "int"])
    if t == "int":
        return {"t": "int", "v": rng.randrange(-10**6, 10**6)}
    if t == "float":
        return {"t": "float", "v": rng.choice([0.5, -1.25, 3.0e10, rng.random()])}
    if t == "str":
        return {"t": "str", "v": rng.choice(["", "a", "hello world", "x" * 40, "café"])}
    if t == "np":
        dt = rng.choice(["i4", "u8", "f4", "f8", "i2"])
        return {"t": "np", "dtype": dt, "v": rng.randrange(0, 100)}
    if t == "arr":
        shape = rng.choice([[3], [1], [2, 2], [4], [2, 3], [5]])
        return {"t": "arr", "dtype": rng.choice(["f8", "i4", "c8", "u1"]), "shape": shape, "seed": rng.randrange(1000)}
    return {"t": "none"}


def _gen_sample_dict(rng, fields):
    out = {}
    for f in fields:
        if f.startswith("sub"):
            out[f] = {"t": "dict", "v": {"x": _gen_leaf(rng), "y": {"t": "dict", "v": {"z": _gen_leaf(rng)}}}}
        else:
            out[f] = _gen_leaf(rng)
    return {"t": "dict", "v": out}


def _gen_dictform(rng, fields, N):
    """dict-of-arrays form: each leaf either per-sample (length N) or broadcast (incl. traps)"""
    out = {}
    for f in fields:
        mode = rng.choice(["per_list", "per_arr", "bcast", "bcast_lenN", "bcast_other", "per_2d"])
        if f.startswith("sub"):
            out[f] = {"t": "dict", "v": {"x": {"t": "list", "v": [{"t": "int", "v": rng.randrange(100)} for _ in range(N)]},
                                          "y": {"t": "dict", "v": {"z": _gen_leaf(rng)}}}}
            continue
        if mode == "per_list":
            out[f] = {"t": "list", "v": [{"t": "np", "dtype": "f8", "v": rng.randrange(100)} for _ in range(N)]}
        elif mode == "per_arr":
            out[f] = {"t": "arr", "dtype": "i4", "shape": [N], "seed": rng.randrange(1000)}
        elif mode == "per_2d":
            out[f] = {"t": "arr", "dtype": "f8", "shape": [N, 3], "seed": rng.randrange(1000)}
        elif mode == "bcast":
            out[f] = rng.choice([{"t": "int", "v": 7}, {"t": "str", "v": "abc"}, {"t": "float", "v": 2.5}])
        elif mode == "bcast_lenN":
            # an array whose length happens to equal N: by the documented rule it IS distributed
            out[f] = {"t": "arr", "dtype": "f8", "shape": [N], "seed": rng.randrange(1000)}
        else:
            out[f] = {"t": "arr", "dtype": "f8", "shape": [N + 1 + rng.randrange(3)], "seed": rng.randrange(1000)}
    return {"t": "dict", "v": out}


def _gen_indices(rng, cfg, cur, count, small):
    """ascending indices > cur, biased to file boundaries and digit-count changes"""
    out = []
    k = cur
    for _ in range(count):
        r = rng.random()
        if r < 0.35:
            # first sample of an upcoming file, or its neighbours
            T = cfg.file_T(max(k, 0)) + cfg.file_s * rng.choice([1, 1, 2, 3])
            cand = cfg.first_of(T) + rng.choice([-1, 0, 0, 1])
        elif r < 0.5 and small and k < 2000 and (10 ** len(str(max(k, 1))) - k) * cfg.d // cfg.n < 3000 * cfg.subdir_s:
            # next power of ten (mixed digit counts inside one file)
            p = 10 ** len(str(max(k, 1)))
            cand = p + rng.choice([-1, 0, 1])
        elif r < 0.75:
            cand = k + rng.choice([1, 1, 2, 3])
        else:
            per = max(1, (cfg.file_s * cfg.n) // cfg.d)
            cand = k + rng.randrange(1, 2 * per + 2)
        if cand <= k:
            cand = k + 1
        out.append(cand)
        k = cand
    return out


def gen_plan(prop, tier, rng, i):
    n, d = rng.choice(MD_RATES) if rng.random() < 0.8 else (rng.randrange(1, 5000), rng.randrange(1, 5000))
    g = math.gcd(n, d)
    n, d = n // g, d // g
    file_s = rng.choice([1, 2, 5, 10, 60, 3600])
    # keep samples per file modest for high rates
    subdir_s = file_s * rng.choice([1, 2, 10, 60])
    cfg = MD.MdCfg(n=n, d=d, file_s=file_s, subdir_s=subdir_s, prefix=rng.choice(["metadata", "md", "antenna_ctl"]))
    small = rng.random() < 0.4
    if small:
        base = rng.randrange(0, 120)
    else:
        base = (rng.randrange(315532800, 4102444800) * n) // d
        while base >= 2**62:
            base //= 4  # (sample indices are below 2**63 throughout the format)
        if rng.random() < 0.5:
            T = cfg.file_T(base) + cfg.file_s
            base = max(0, cfg.first_of(T) + rng.choice([-2, -1, -1, 0]))
    fields = sorted(rng.sample(["alpha", "beta", "gamma", "sub1", "delta"], rng.randrange(1, 5)))
    ops = []
    cur = base - 1
    model_idx = []
    nwrites = rng.randrange(3, 13 if prop != "C20" else 9)
    nreaders = 1
    with_rf = prop == "C20" and rng.random() < 0.7
    late_md = with_rf and rng.random() < 0.3
    if late_md:
        # the RF channel exists (and an RF reader has been asked for its metadata) BEFORE the metadata directory and
        # its writer are created; that long-lived RF reader must report what is written afterwards
        ops.append({"op": "rfw", "len": rng.choice([5, 40])})
        ops.append({"op": "rfold"})
        ops.append({"op": "mopen"})
    ops.append({"op": "newreader"})
    if with_rf and rng.random() < 0.5:
        ops.append({"op": "rfw", "len": rng.choice([5, 40])})
        for _ in range(rng.randrange(1, 3)):
            ops.append({"op": rng.choice(["rfmd", "rfgetmd"])})
    for w in range(nwrites):
        form = rng.choice(["single", "single", "dict", "list"])
        cnt = 1 if form == "single" else rng.randrange(1, 6)
        if prop in ("C13", "C20") and model_idx and min(model_idx) > 3 and rng.random() < 0.15:
            # an index below everything written so far (the write API does not ask for ascending calls)
            lowk = max(0, min(model_idx) - rng.choice([1, 2, max(1, (cfg.file_s * cfg.n) // cfg.d),
                                                        3 * max(1, (cfg.file_s * cfg.n) // cfg.d) + 1]))
            if lowk not in model_idx:
                ops.append({"op": "mw", "form": "single", "samples": [lowk], "data": _gen_sample_dict(rng, fields),
                            "scalar_sample": True})
                model_idx.append(lowk)
        if prop in ("C12", "C13", "C20") and len(model_idx) >= 3 and rng.random() < 0.2:
            # back-fill: an unused index between indices written earlier (lands in a file that already exists and
            # that older readers may have read from end to end)
            srt = sorted(model_idx)
            holes = [(a, b) for a, b in zip(srt, srt[1:]) if b - a > 1]
            if holes:
                a, b = rng.choice(holes)
                midk = rng.choice([a + 1, b - 1, (a + b) // 2])
                ops.append({"op": "mw", "form": "single", "samples": [midk], "data": _gen_sample_dict(rng, fields),
                            "scalar_sample": True})
                model_idx.append(midk)
                # an old reader looks at once
                ops.append({"op": "mread", "r": 0, "a": midk, "b": midk, "cols": None, "method": None})
                ops.append({"op": "mread", "r": 0, "a": srt[0], "b": srt[-1], "cols": None, "method": None})
        idxs = _gen_indices(rng, cfg, cur, cnt, small)
        cur = idxs[-1]
        if prop in ("C13", "C20", "C12") and form == "list" and cnt >= 3 and rng.random() < (0.5 if prop == "C13" else 0.25):
            # one call carrying indices that are not in ascending order
            idxs = idxs[:1] + idxs[2:] + idxs[1:2] if rng.random() < 0.5 else [idxs[0]] + idxs[:0:-1]
        if form == "single":
            ops.append({"op": "mw", "form": "single", "samples": idxs, "data": _gen_sample_dict(rng, fields),
                        "scalar_sample": rng.random() < 0.5})
        elif form == "dict":
            ops.append({"op": "mw", "form": "dict", "samples": idxs, "data": _gen_dictform(rng, fields, cnt)})
        else:
            ops.append({"op": "mw", "form": "list", "samples": idxs,
                        "data": [_gen_sample_dict(rng, fields) for _ in idxs]})
        model_idx.extend(idxs)
        # interleaved activity
        if rng.random() < 0.25:
            dup = rng.choice(model_idx)
            ops.append({"op": "mw_dup", "sample": dup, "data": _gen_sample_dict(rng, fields),
                        "batch_tail": [cur + 1 + j for j in range(rng.choice([0, 0, 2]))]})
            # a duplicate as FIRST element of a batch: what else of the batch is stored is not judged,
            # so the tail indices are burnt
            if ops[-1]["batch_tail"]:
                ops[-1]["burn"] = True
                cur = ops[-1]["batch_tail"][-1]
        if rng.random() < 0.2:
            ops.append({"op": "mreopen"})
        if rng.random() < 0.3:
            ops.append({"op": "newreader"})
            nreaders += 1
        if rng.random() < 0.3:
            ops.append({"op": "clock", "dt": rng.choice([1, 61, 3601, 86400 * 3])})
        if with_rf and rng.random() < 0.5:
            ops.append({"op": "rfw", "len": rng.choice([1, 5, 40, 130])})
        nq = rng.randrange(0, 4) if prop != "C20" else rng.randrange(1, 4)
        for _ in range(nq):
            ops.append(_gen_query(rng, cfg, model_idx, nreaders, fields, with_rf))
    for _ in range(6 if prop == "C12" else 3):
        ops.append(_gen_query(rng, cfg, model_idx, nreaders, fields, with_rf))
    plan = {"engine": "mdsim", "md": cfg.to_json(), "ops": ops, "readdir_seed": rng.randrange(2**32), "fields": fields,
            # local time zone of the process that writes and reads (names and times of the format are UTC whatever it is)
            "proc_tz": rng.choice([None, None, None, "XYZ-05:30", "ABC+08", "EST5EDT,M3.2.0,M11.1.0"]),
            "late_md": late_md}
    if with_rf:
        rcfg = M.gen_cfg(rng, {"maxcap": 100, "p_continuous": 0.5, "p_filters": 0.2})
        t = 0
        while rcfg.typical_capacity() > 400 and t < 20:
            rcfg = M.gen_cfg(rng, {"maxcap": 100})
            t += 1
        plan["rf"] = rcfg.to_json()
    return plan


def _gen_query(rng, cfg, idxs, nreaders, fields, with_rf):
    r = rng.random()
    rd = rng.randrange(nreaders)
    if rng.random() < 0.12 and len(idxs) >= 2:
        # forward fill from a position inside the file of the NEXT sample but before that sample: the value must come
        # from the previous file
        srt = sorted(set(idxs))
        pairs = [(a_, b_) for a_, b_ in zip(srt, srt[1:]) if cfg.file_T(a_) != cfg.file_T(b_)
                 and max(a_ + 1, cfg.first_of(cfg.file_T(b_))) <= b_ - 1]
        if pairs:
            a_, b_ = rng.choice(pairs)
            q_ = rng.choice([max(a_ + 1, cfg.first_of(cfg.file_T(b_))), b_ - 1])
            return {"op": "mread", "r": rd, "a": q_, "b": rng.choice([q_, None, b_]), "cols": None, "method": "ffill"}
    if r < 0.55:
        k = rng.choice(idxs)
        a = k + rng.choice([0, 0, -1, 1, -3, 2])
        kind = rng.random()
        if kind < 0.12:
            # end_sample omitted: the documented default is "only start_sample"
            cols = rng.choice([None, None, rng.choice(fields)])
            return {"op": "mread", "r": rd, "a": max(0, a), "b": None, "cols": cols,
                    "method": rng.choice([None, "ffill", "ffill", "pad"])}
        if kind < 0.3:
            b = a
        elif kind < 0.7:
            b = rng.choice(idxs) + rng.choice([0, 0, 1, -1])
        else:
            b = a + rng.randrange(0, 200)
        a = max(0, a)
        if b < a:
            a, b = max(0, b), a
        cols = rng.choice([None, None, None, "one", "list"])
        if cols == "one":
            cols = rng.choice(fields)
            if cols.startswith("sub"):
                cols = rng.choice([cols, cols + "/x"])
        elif cols == "list":
            cols = rng.sample(fields, rng.randrange(1, len(fields) + 1))
        return {"op": "mread", "r": rd, "a": a, "b": b, "cols": cols, "method": rng.choice([None, None, "ffill", "pad"])}
    if r < 0.58:
        # a column that (some) samples do not have: whether that raises or returns a partial answer is not judged,
        # but it is a read - the tree must be left alone
        k = rng.choice(idxs)
        spf_ = max(1, (cfg.file_s * cfg.n) // cfg.d)   # (keep the range to a few hundred candidate files)
        return {"op": "mread_badcol", "r": rd, "a": max(0, k - rng.choice([0, 3, min(1000, 50 * spf_)])),
                "b": k + rng.choice([0, 5, min(100000, 200 * spf_)]),
                "cols": rng.choice(["nosuch_field", fields[0] + "/nosuch", ["nosuch_field"]])}
    if r < 0.65:
        return {"op": "mbounds", "r": rd}
    if r < 0.75:
        return {"op": "mlatest", "r": rd}
    if r < 0.82:
        k = rng.choice(idxs)
        return {"op": "mflat", "r": rd, "a": max(0, k - 2), "b": k + rng.randrange(0, 50)}
    if r < 0.88:
        return {"op": "mfields", "r": rd}
    if r < 0.94 or not with_rf:
        return {"op": "lsdrf", "flags": [rng.random() < 0.7, rng.random() < 0.7, rng.random() < 0.7, rng.random() < 0.7]}
    return {"op": rng.choice(["rfread", "rfmd", "rfgetmd", "rfbounds", "rfblocks", "rfprops", "rflastwrite", "rfvector"])}


def shrink_candidates(plan):
    ops = plan["ops"]
    n = len(ops)
    if n > 2:
        for part in (ops[: n // 2], ops[n // 2:], ops[:-1]):
            p = copy.deepcopy(plan)
            p["ops"] = [{"op": "newreader"}] + [o for o in part if o["op"] != "newreader" or True]
            yield p
    for i in range(n):
        if ops[i]["op"] == "newreader" and i == 0:
            continue
        p = copy.deepcopy(plan)
        del p["ops"][i]
        yield p
    for i, o in enumerate(ops):
        if o["op"] == "mw" and len(o["samples"]) > 1 and o["form"] == "list":
            p = copy.deepcopy(plan)
            p["ops"][i]["samples"] = o["samples"][:-1]
            p["ops"][i]["data"] = o["data"][:-1]
            yield p


# --------------------------------------------------------------------------------------
# execution
# --------------------------------------------------------------------------------------

class Clock:
    def __init__(self):
        self.offset = 0.0

    def __call__(self):
        return seams._real_time() + self.offset


def _fp(tree):
    return K.fingerprint(tree, content=True, meta=True)


def run_plan(prop, plan):
    import digital_rf
    from digital_rf import digital_metadata as dm

    res = K.RunResult()
    cfg = MD.MdCfg(**plan["md"])
    _counter[0] += 1
    sc = K.new_scratch("md-%d-%d" % (os.getpid(), _counter[0]))
    tree = os.path.join(sc, "tree")
    chdir = os.path.join(tree, "ch0")
    mdir = os.path.join(chdir, "metadata")
    os.makedirs(chdir if plan.get("late_md") else mdir)
    clock = Clock()
    old_tz = os.environ.get("TZ")
    if plan.get("proc_tz"):
        import time as _time

        os.environ["TZ"] = plan["proc_tz"]
        _time.tzset()
        res.probe("process_tz_not_utc")
    seams.install(tree, plan.get("readdir_seed", 1), clock=clock)
    model = MD.MdModel(cfg)
    readers = []
    rf = {"w": None, "cfg": None, "model": None, "sess": None, "salt": 1, "reader": None}

    def v(p, cls, msg, **sig):
        if p == prop:
            res.violate(p, cls, msg, **sig)
        else:
            k = "%s:%s" % (p, cls)
            res.cross[k] = res.cross.get(k, 0) + 1

    def readonly(what, fn):
        """run a read-only call with a fingerprint of the whole tree around it (C20)"""
        before = _fp(tree)
        try:
            out = fn()
            exc = None
        except Exception as e:  # noqa
            out, exc = None, e
        after = _fp(tree)
        res.stat("readonly_calls")
        if before != after:
            v("C20", "reading_modified_tree", "%s changed the tree: %s" % (what, K.fp_diff(before, after)))
        return out, exc

    def open_writer():
        return dm.DigitalMetadataWriter(mdir, cfg.subdir_s, cfg.file_s, cfg.n, cfg.d, cfg.prefix)

    def check_after_write(new_idxs):
        """C13 placement + C20 visibility after a metadata write returned"""
        found = MD.scan_md_channel(mdir)
        for k in sorted(model.samples):
            want = cfg.relpath(cfg.file_T(k))
            got = found.get(k, [])
            if got != [want]:
                v("C13", "sample_misplaced", "sample %d stored in %s, exact placement is %s" % (k, got, want),
                  boundary=(k == cfg.first_of(cfg.file_T(k))))
        for k in sorted(set(found) - set(model.samples)):
            if k not in burnt:
                v("C12", "unwritten_sample_stored", "sample %d is in %s but was never written" % (k, found[k]))
        res.trace.add("files", len(set(p for ps in found.values() for p in ps)))
        # visibility: an earlier reader and a brand new one
        mb = model.bounds()
        fresh, exc = readonly("construct metadata reader", lambda: dm.DigitalMetadataReader(mdir))
        if exc is not None:
            v("C20", "reader_construct_fails", "%s: %s" % (type(exc).__name__, exc))
            return
        lookers = [("new", fresh)] + ([("old", readers[0])] if readers else [])
        for age, rd in lookers:
            b, exc = readonly("get_bounds", rd.get_bounds)
            if exc is not None:
                v("C20", "bounds_after_write_raises", "[%s reader] get_bounds raised %s: %s" % (age, type(exc).__name__, exc))
            elif not burnt and tuple(int(x) for x in b) != mb:
                v("C12", "bounds", "[%s reader] get_bounds %s, smallest/largest index written is %s" % (age, tuple(b), mb),
                  mixed_digits=len(set(len(str(k)) for k in model.samples)) > 1)
                if not (b[0] <= min(new_idxs) and max(new_idxs) <= b[1]):
                    v("C20", "write_not_visible_in_bounds", "[%s reader] bounds %s do not include just written %s" % (
                        age, tuple(b), new_idxs))
            for k in new_idxs:
                out, exc = readonly("read", lambda: rd.read(k, k))
                if exc is not None or k not in [int(x) for x in (out or {})]:
                    v("C20", "write_not_visible_in_read", "[%s reader] read(%d,%d) does not return the sample just "
                      "written (%s)" % (age, k, k, exc if exc else list(out.keys())))
                    v("C13", "reader_cannot_find_sample", "[%s reader] read(%d,%d) -> %s" % (age, k, k, exc if exc else list(out.keys())),
                      boundary=(k == cfg.first_of(cfg.file_T(k))))
                elif not MD.deep_equal(_plain(out[k]), model.samples[k]):
                    v("C12", "value_mismatch", "[%s reader] sample %d reads %r, written %r" % (age, k, out[k], model.samples[k]))
            lat, exc = readonly("read_latest", rd.read_latest)
            if exc is not None:
                v("C20", "read_latest_raises", "[%s reader] %s: %s" % (age, type(exc).__name__, exc))
            elif not burnt:
                ks = [int(x) for x in lat.keys()]
                if ks != [mb[1]]:
                    v("C20", "read_latest_wrong", "[%s reader] read_latest returns %s, highest index is %d" % (age, ks, mb[1]))

    burnt = set()
    try:
        writer = None if plan.get("late_md") else open_writer()
        for oi, op in enumerate(plan["ops"]):
            o = op["op"]
            res.trace.add(oi, o)
            if o == "mopen":
                os.makedirs(mdir, exist_ok=True)
                writer = open_writer()
                res.probe("metadata_channel_created_after_rf_reader")
            elif o == "rfold":
                if rf["cfg"] and rf["model"] and rf["model"].segs:
                    rd_, exc_ = readonly("construct DigitalRFReader", lambda: digital_rf.DigitalRFReader(tree))
                    if exc_ is None:
                        rf["old_reader"] = rd_
                        res.probe("rf_reader_created_before_metadata_channel")
                        lo_, hi_ = rf["model"].bounds_written()
                        readonly("DigitalRFReader.read_metadata", lambda: rd_.read_metadata(lo_, hi_, rf["cfg"].channel, method=None))
                        readonly("DigitalRFReader.get_digital_metadata", lambda: rd_.get_digital_metadata(rf["cfg"].channel))
            elif o == "mw":
                vals = MD.make_value(op["data"]) if not isinstance(op["data"], list) else [MD.make_value(x) for x in op["data"]]
                idxs = op["samples"]
                if op["form"] == "single":
                    per = [vals]
                    arg_s = idxs[0] if op.get("scalar_sample") else idxs
                    arg_d = vals
                    if not op.get("scalar_sample"):
                        # dict form with N == 1: the documented rule applies (length-1 values are distributed)
                        per = MD.distribute(vals, 1)
                    else:
                        per = MD.distribute(vals, 1)
                elif op["form"] == "dict":
                    per = MD.distribute(vals, len(idxs))
                    arg_s, arg_d = idxs, vals
                else:
                    per = vals
                    arg_s, arg_d = idxs, vals
                try:
                    writer.write(arg_s, arg_d)
                except Exception as e:  # noqa
                    v("C12", "valid_write_raises", "write(%s, ...) raised %s: %s" % (idxs, type(e).__name__, str(e)[:200]))
                    res.probe("valid_md_write_failed")
                    break
                for k, dct in zip(idxs, per):
                    model.add(k, dct)
                if any(k == cfg.first_of(cfg.file_T(k)) for k in idxs):
                    res.probe("md_sample_on_file_boundary")
                res.stat("md_samples", len(idxs))
                check_after_write(idxs)
                if rf.get("old_reader") is not None and not burnt:
                    # the RF reader created before the metadata channel existed
                    res.probe("early_rf_reader_asked_after_metadata_write")
                    for k_ in idxs[:2]:
                        out_, exc_ = readonly("DigitalRFReader.read_metadata", lambda: rf["old_reader"].read_metadata(
                            k_, k_, rf["cfg"].channel, method=None))
                        # (read_metadata always adds an entry with the channel's inherent properties at the start
                        #  index, so presence of the key alone proves nothing: the written fields must be there)
                        got_ = {int(x_): y_ for x_, y_ in (out_ or {}).items()}
                        if exc_ is not None or k_ not in got_ or not set(model.samples[k_]) <= set(got_[k_]):
                            v("C20", "write_not_visible_to_rf_reader", "[RF reader created before the metadata channel] "
                              "read_metadata(%d,%d) does not return the sample just written (%s)" % (
                                  k_, k_, exc_ if exc_ else {x_: sorted(y_)[:6] for x_, y_ in list(got_.items())[:2]}))
                            break
            elif o == "mw_dup":
                k = op["sample"]
                before = None
                if k in model.samples:
                    before = copy.deepcopy(model.samples[k])
                data = MD.make_value(op["data"])
                tail = op.get("batch_tail") or []
                try:
                    if tail:
                        writer.write([k] + tail, [data] + [data for _ in tail])
                    else:
                        writer.write(k, data)
                    v("C12", "duplicate_accepted", "second write of index %d was accepted" % k)
                except Exception:  # noqa
                    res.probe("duplicate_refused")
                burnt.update(tail)
                try:
                    rd = dm.DigitalMetadataReader(mdir)
                    out = rd.read(k, k)
                except Exception as e:  # noqa
                    v("C20", "reader_construct_fails", "after a refused duplicate write: %s: %s" % (type(e).__name__, str(e)[:200]))
                    v("C12", "read_raises", "after a refused duplicate write: %s: %s" % (type(e).__name__, str(e)[:200]))
                    break
                if k not in [int(x) for x in out] or not MD.deep_equal(_plain(out[_key(out, k)]), before):
                    v("C12", "duplicate_changed_sample", "after a refused duplicate write sample %d reads %r, was %r" % (
                        k, out.get(k), before))
            elif o == "mreopen":
                try:
                    writer = open_writer()
                    res.probe("writer_reopened")
                except Exception as e:  # noqa
                    v("C12", "reopen_fails", "%s: %s" % (type(e).__name__, e))
                    break
            elif o == "newreader":
                rd, exc = readonly("construct metadata reader", lambda: dm.DigitalMetadataReader(mdir))
                if exc is not None:
                    v("C20", "reader_construct_fails", "%s: %s" % (type(exc).__name__, exc))
                else:
                    readers.append(rd)
            elif o == "clock":
                clock.offset += op["dt"]
                res.fault("clock_jump")
            elif o == "rfw":
                _rf_write(plan, rf, chdir, op, res, v)
            elif o in ("rfread", "rfmd", "rfgetmd", "rfbounds", "rfblocks", "rfprops", "rflastwrite", "rfvector"):
                _rf_query(o, rf, tree, model, readonly, v, res)
            elif o == "lsdrf":
                fl = op["flags"]
                out, exc = readonly("lsdrf", lambda: digital_rf.list_drf.lsdrf(
                    tree, include_drf=fl[0], include_dmd=fl[1], include_drf_properties=fl[2], include_dmd_properties=fl[3]))
                if exc is not None:
                    v("C20", "lsdrf_raises", "%s: %s" % (type(exc).__name__, exc))
            elif readers:
                rd = readers[op["r"] % len(readers)]
                _md_query(op, rd, model, burnt, readonly, v, res)
        res.stats["md_files"] = len(set(cfg.file_T(k) for k in model.samples))
        res.nontrivial = len(set(cfg.file_T(k) for k in model.samples)) >= 2 and len(model.samples) >= 3
        res.stats["readdir_permutations"] = seams.permutations_done()
        res.faults["readdir_permutation"] = seams.permutations_done()
        return res
    finally:
        seams.uninstall()
        if plan.get("proc_tz"):
            import time as _time

            if old_tz is None:
                os.environ.pop("TZ", None)
            else:
                os.environ["TZ"] = old_tz
            _time.tzset()
        if rf["w"] is not None:
            try:
                rf["w"].close()
            except Exception:  # noqa
                pass
        if not os.environ.get("VSIM_KEEP"):
            shutil.rmtree(sc, ignore_errors=True)


def _key(d, k):
    for x in d:
        if int(x) == k:
            return x
    return k


def _plain(x):
    """reader output -> comparable (OrderedDict -> dict)"""
    if isinstance(x, dict):
        return {k: _plain(v) for k, v in x.items()}
    return x


def _md_query(op, rd, model, burnt, readonly, v, res):
    o = op["op"]
    if burnt:
        # indices of a refused batch may or may not be stored; exact comparisons are off for the rest
        res.probe("queries_skipped_after_burnt_batch")
        return
    if o == "mread":
        a, b, cols, method = op["a"], op["b"], op["cols"], op["method"]
        out, exc = readonly("read", lambda: rd.read(a, b, cols, method))
        if b is None:
            res.probe("read_with_end_omitted")
            b = a
        exp = model.in_range(a, b)
        if method in ("ffill", "pad"):
            res.probe("ffill_read")
            pre = model.latest_le(a)
            if pre is not None and pre not in exp:
                exp = [pre] + exp
            if pre is not None and pre < a:
                same_file = [k for k in model.samples if model.cfg.file_T(k) == model.cfg.file_T(pre) and k > a]
                if same_file:
                    res.probe("ffill_query_between_two_samples_of_one_file")
        if exc is not None:
            if not model.samples and isinstance(exc, IOError):
                return
            v("C12", "read_raises", "read(%d,%s,%r,%r) raised %s: %s" % (a, op["b"], cols, method, type(exc).__name__, str(exc)[:200]))
            return
        got = [int(k) for k in out.keys()]
        if got != exp:
            v("C12", "read_index_set", "read(%d,%s,columns=%r,method=%r) returns indices %s, expected %s" % (
                a, op["b"], cols, method, got[:8], exp[:8]), method=method or "none")
            return
        for kk, val in out.items():
            e = model.select(int(kk), cols)
            if not MD.deep_equal(_plain(val), e):
                v("C12", "value_mismatch", "read(%d,%d,%r) sample %d: %r != written %r" % (a, b, cols, int(kk), val, e))
                break
    elif o == "mread_badcol":
        readonly("read(columns=%r)" % (op["cols"],), lambda: rd.read(op["a"], op["b"], op["cols"]))
        res.probe("read_naming_a_missing_column")
    elif o == "mbounds":
        out, exc = readonly("get_bounds", rd.get_bounds)
        mb = model.bounds()
        if exc is not None:
            if mb is not None:
                v("C12", "bounds_raises", "get_bounds raised %s: %s" % (type(exc).__name__, exc))
        elif tuple(int(x) for x in out) != mb:
            v("C12", "bounds", "get_bounds %s, smallest/largest index written is %s" % (tuple(out), mb),
              mixed_digits=len(set(len(str(k)) for k in model.samples)) > 1)
    elif o == "mlatest":
        out, exc = readonly("read_latest", rd.read_latest)
        mb = model.bounds()
        if exc is not None:
            if mb is not None:
                v("C20", "read_latest_raises", "%s: %s" % (type(exc).__name__, exc))
        else:
            ks = [int(x) for x in out.keys()]
            if ks != [mb[1]]:
                v("C20", "read_latest_wrong", "read_latest returns %s, highest index is %d" % (ks, mb[1]))
            elif not MD.deep_equal(_plain(out[_key(out, mb[1])]), model.samples[mb[1]]):
                v("C12", "value_mismatch", "read_latest value differs")
    elif o == "mflat":
        a, b = op["a"], op["b"]
        out, exc = readonly("read_flatdict", lambda: rd.read_flatdict(a, b))
        if exc is not None and isinstance(exc, ValueError) and "inhomogeneous" in str(exc):
            res.probe("flatdict_inhomogeneous_field_shapes_not_judged")
        elif exc is not None:
            v("C12", "read_raises", "read_flatdict(%d,%d) raised %s: %s" % (a, b, type(exc).__name__, str(exc)[:200]))
        else:
            exp = model.in_range(a, b)
            if [int(x) for x in out.get("index", [])] != exp:
                v("C12", "read_index_set", "read_flatdict(%d,%d) index %s expected %s" % (a, b, list(out.get("index", []))[:8], exp[:8]),
                  method="flat")
    elif o == "mfields":
        out, exc = readonly("get_fields", rd.get_fields)
        # a reader constructed after the first write knows the (top-level) field names
        if exc is None and out is not None and model.samples:
            want = sorted(set(k for smp in model.samples.values() for k in smp))
            if sorted(out) != want:
                v("C12", "field_names", "get_fields() %s, written top-level fields %s" % (sorted(out), want))


def _rf_write(plan, rf, chdir, op, res, v):
    if rf["w"] is None:
        c = M.Cfg(**plan["rf"])
        rf["cfg"] = c
        rf["model"] = M.RFModel(c)
        rf["sess"] = M.SessionModel(c, rf["model"])
        try:
            rf["w"] = RN.open_writer(os.path.dirname(chdir), c)
        except Exception as e:  # noqa
            res.probe("rf_open_failed")
            rf["w"] = False
            return
    if rf["w"] is False:
        return
    c = rf["cfg"]
    rel = rf["sess"].next_avail
    o = {"op": "w", "rel": rel, "_rel": rel, "len": op["len"], "salt": rf["salt"]}
    rf["salt"] += 1
    try:
        RN.do_op(rf["w"], c, o)
        RN.apply_op(rf["sess"], o)
        res.stat("rf_writes")
    except Exception:  # noqa
        res.probe("rf_write_failed")
        rf["w"] = False


def _rf_query(o, rf, tree, mdmodel, readonly, v, res):
    import digital_rf

    if not rf["cfg"] or not rf["model"] or not rf["model"].segs:
        return
    c = rf["cfg"]
    rd, exc = readonly("construct DigitalRFReader", lambda: digital_rf.DigitalRFReader(tree))
    if exc is not None:
        v("C20", "rf_reader_construct_fails", "%s: %s" % (type(exc).__name__, exc))
        return
    if o == "rfbounds":
        readonly("DigitalRFReader.get_bounds", lambda: rd.get_bounds(c.channel))
    elif o == "rfread":
        lo, hi = rf["model"].bounds_written()
        readonly("DigitalRFReader.read", lambda: rd.read(lo, hi, c.channel))
    elif o == "rfblocks":
        lo, hi = rf["model"].bounds_written()
        readonly("DigitalRFReader.get_continuous_blocks", lambda: rd.get_continuous_blocks(lo, hi, c.channel))
    elif o == "rfprops":
        lo, hi = rf["model"].bounds_written()
        readonly("DigitalRFReader.get_properties", lambda: rd.get_properties(c.channel, sample=lo))
        readonly("DigitalRFReader.get_properties", lambda: rd.get_properties(c.channel))
    elif o == "rflastwrite":
        readonly("DigitalRFReader.get_last_write", lambda: rd.get_last_write(c.channel))
    elif o == "rfvector":
        lo, hi = rf["model"].bounds_written()
        readonly("DigitalRFReader.read_vector", lambda: rd.read_vector(lo, 1, c.channel))
    elif o == "rfgetmd":
        # (the reader object it returns is not judged here - only that asking for it leaves the tree alone)
        readonly("DigitalRFReader.get_digital_metadata", lambda: rd.get_digital_metadata(c.channel))
        if not mdmodel.bounds():
            res.probe("rf_reader_asked_for_metadata_before_first_metadata_write")
    else:
        mb = mdmodel.bounds()
        if mb:
            out, exc = readonly("DigitalRFReader.read_metadata", lambda: rd.read_metadata(mb[0], mb[1], c.channel))
            if exc is not None:
                v("C20", "read_metadata_raises", "%s: %s" % (type(exc).__name__, str(exc)[:200]))
        else:
            # metadata writer constructed, nothing written yet: the outcome (empty / IOError) is not judged, the
            # tree must be left alone
            lo, hi = rf["model"].bounds_written()
            readonly("DigitalRFReader.read_metadata", lambda: rd.read_metadata(lo, hi, c.channel, method=None))
            res.probe("rf_reader_asked_for_metadata_before_first_metadata_write")


COMPONENTS = {
    "real": ["DigitalMetadataWriter", "DigitalMetadataReader", "h5py/HDF5 2.0.0", "DigitalRFWriter + C library (C20 runs)",
             "DigitalRFReader.read_metadata", "list_drf.lsdrf", "tmpfs"],
    "stubbed": ["wall clock (time.time = real + seeded jumps of up to days)", "readdir order (seeded permutation)"],
}
