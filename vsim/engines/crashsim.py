"""E2 crashsim - lock-step recorder under the shim.

C02: every boundary between two FS ops is a crash state (kill == parked state; cross-checked
     with a real SIGKILL), plus torn writes.
C09: reader passes (three reader ages) on the live tree at every boundary.
C10: every single-fault schedule (position x errno x once/same-kind/device persistent).
"""
from __future__ import annotations

import copy
import os
import shutil

import numpy as np

from .. import kernel as K
from .. import model_rf as M
from .. import rfcheck as RC
from .. import rfnode as RN
from .. import rfshrink

PROPS = ("C02", "C09", "C10")
_counter = [0]


# --------------------------------------------------------------------------------------
# plans
# --------------------------------------------------------------------------------------

def gen_plan(prop, tier, rng, i):
    thorough = tier == "thorough"
    prof = {"maxcap": 400 if prop != "C10" else 120, "max_cont_cap": 3000}
    cfg = M.gen_cfg(rng, prof)
    tries = 0
    while cfg.typical_capacity() > 3000 and tries < 20:
        if rng.random() < 0.3:
            cfg.continuous = False  # very high rate: sparse gapped files only
            break
        cfg = M.gen_cfg(rng, prof)
        tries += 1
    if prop == "C10":
        nw = rng.randrange(1, 5)
        maxlen = max(2, min(600, int(2.2 * cfg.typical_capacity())))
    else:
        nw = rng.randrange(1, 7)
        maxlen = max(2, min(1500, int(3 * cfg.typical_capacity())))
    ops = M.gen_writes(rng, cfg, nw, maxlen=maxlen)
    # keep the number of files bounded (each costs ~11 ops)
    ops = _bound_files(cfg, ops, 5 if prop == "C10" else 10)
    if prop in ("C10", "C02") and i % 5 == 3:
        # large writes into un-chunked files: HDF5 hands blocks of 64 KiB and more straight to pwrite from inside
        # H5Dwrite (no sieve buffer), so a fault / kill can land in the middle of the data transfer of a call
        secs = min(4102444800, max(315532800, (cfg.start * cfg.d) // cfg.n))
        cfg = M.Cfg(**dict(cfg.to_json(), kind=rng.choice(["i8", "f8"]), cstyle="real", nsub=2, continuous=True,
                           compression=0, checksum=False, n=10000, d=1, file_ms=1000, subdir_s=rng.choice([1, 10])))
        cfg.start = secs * 10000 + rng.choice([0, 0, 2500])
        ops, pos = [], 0
        for k in range(rng.randrange(1, 4)):
            pos += rng.choice([0, 0, 100])
            ln = rng.choice([4100, 5000, 9000])
            ops.append({"op": "w", "rel": pos, "_rel": pos, "len": ln, "salt": k + 1})
            pos += ln
    plan = {"engine": "crashsim", "cfg": cfg.to_json(), "ops": ops, "tmp_in_path": rng.random() < 0.1}
    if prop == "C02":
        plan["kill_frac"] = rng.random() if (i % 3 == 0) else None
        if i % 3 == 1:
            # kill, then a new recorder process restarts inside the period that was in progress
            plan["restart_frac"] = rng.random()
            plan["restart_off"] = rng.choice([0.0, 0.0, 0.5, 0.99])
            plan["restart_nops"] = rng.choice([1, 2])  # (with 1 the refused file is the last one touched before close)
            if rng.random() < 0.4:
                plan["restart_mode"] = "after_bounds"
        plan["torn"] = [[rng.random(), rng.random()] for _ in range(6 if thorough else 2)]
    if prop == "C09":
        plan["reader_at_frac"] = sorted(rng.random() for _ in range(2))
        if i % 4 == 1:
            plan["second_session"] = {"off": rng.choice([0.0, 0.3, 0.9]), "multi": rng.random() < 0.5,
                                      "earlier": rng.random() < 0.35}
    if prop == "C10":
        if thorough or i % 4 == 0:
            plan["faults"] = "all"
        else:
            plan["fault_fracs"] = [[rng.random(), rng.choice(["ENOSPC", "EIO"]),
                                    rng.choice(["once", "once", "kind", "device"])] for _ in range(24)]
    return plan


def _bound_files(cfg, ops, maxfiles):
    out, nfiles = [], 0
    for op in ops:
        f = 0
        for a, n in RN.op_samples(cfg, op):
            f += len(cfg.files_of(a, a + n - 1))
        if out and nfiles + f > maxfiles:
            break
        if not out and f > maxfiles:
            # shorten the very first op
            if op["op"] == "w":
                op = dict(op, len=max(1, min(op["len"], cfg.typical_capacity() * (maxfiles - 1))))
            else:
                op = {"op": "w", "rel": op["g"][0], "_rel": op["g"][0], "salt": op["salt"],
                      "len": max(1, min(op["len"], cfg.typical_capacity() * (maxfiles - 1)))}
            f = maxfiles
        out.append(op)
        nfiles += f
    return out


def shrink_candidates(plan):
    for p in rfshrink.candidates(plan):
        if p["ops"]:
            yield p
    if plan.get("torn"):
        for i in range(len(plan["torn"])):
            p = copy.deepcopy(plan)
            p["torn"] = [plan["torn"][i]]
            if len(plan["torn"]) > 1:
                yield p
    if isinstance(plan.get("faults"), list) and len(plan["faults"]) > 1:
        for f in plan["faults"]:
            p = copy.deepcopy(plan)
            p["faults"] = [f]
            yield p


# --------------------------------------------------------------------------------------
# common machinery
# --------------------------------------------------------------------------------------

class Tracker:
    """Follows API reports of the node and maintains the model."""

    def __init__(self, cfg, ops):
        self.cfg, self.ops = cfg, ops
        self.model = M.RFModel(cfg)          # accepted calls
        self.attempted = M.RFModel(cfg)      # accepted + in-flight/failed calls' own samples
        self.sess = M.SessionModel(cfg, self.model)
        self.inflight = None                 # ("open"|"op"|"close", i)
        self.calls = []                      # (kind, i, ok, exc)
        self.unexpected_failure = False
        self.done = False
        self.child_exception = None
        self.collide_accepted = False

    def feed(self, ev):
        e = ev.get("ev")
        if e == "begin":
            self.inflight = (ev["call"], ev.get("i"))
            if ev["call"] == "op":
                op = self.ops[ev["i"]]
                if not op.get("collide"):
                    for a, n in RN.op_samples(self.cfg, op):
                        self.attempted.add(a, n, op["salt"])
        elif e == "end":
            self.calls.append((ev["call"], ev.get("i"), ev["ok"], ev.get("exc")))
            if ev["call"] == "op" and ev["ok"]:
                if self.ops[ev["i"]].get("collide"):
                    self.collide_accepted = True
                else:
                    RN.apply_op(self.sess, self.ops[ev["i"]])
            self.inflight = None
        elif e == "done":
            self.done = True
        elif e == "child_exception":
            self.child_exception = ev

    def visible_model(self):
        """accepted samples plus the in-flight call's own"""
        return self.attempted


_tree_parent = [None]


def _mk_tree(tag):
    _counter[0] += 1
    sc = K.new_scratch("%s-%d-%d" % (tag, os.getpid(), _counter[0]))
    # (some recordings live below a `mktemp -d` style directory: a path component that starts with "tmp.")
    tree = os.path.join(sc, _tree_parent[0], "tree") if _tree_parent[0] else os.path.join(sc, "tree")
    os.makedirs(tree)
    return sc, tree


def _child(tree, cfg, ops):
    def fn(report):
        RN.run_session(report, tree, cfg, ops)
    return fn


def _is_final_rename(op):
    b1, b2 = os.path.basename(op.p1), os.path.basename(op.p2)
    return (op.kind == "rename" and b1.startswith("tmp.") and b1[4:] == b2
            and M.RE_RFFILE.match(b2) is not None)


def _T_of(name):
    m = M.RE_RFFILE.match(os.path.basename(name))
    return int(m.group(2)) * 1000 + int(m.group(3))


def flatten(blocks):
    if not blocks:
        return np.zeros(0, dtype=np.uint64), np.zeros((0, 0), dtype=np.uint64)
    idx = np.concatenate([np.arange(b.shape[0], dtype=np.uint64) + np.uint64(s) for s, b in blocks])
    bits = np.concatenate([b for _, b in blocks])
    return idx, bits


def contains(new, old):
    """every (index,row) of old is in new"""
    ni, nb = new
    oi, ob = old
    if oi.size == 0:
        return True
    if ni.size == 0:
        return False
    pos = np.searchsorted(ni, oi)
    pos = np.minimum(pos, ni.size - 1)
    if not (ni[pos] == oi).all():
        return False
    return bool((nb[pos] == ob).all())


# --------------------------------------------------------------------------------------
# C02 / C09 : observation at every boundary
# --------------------------------------------------------------------------------------

class Observer:
    def __init__(self, prop, res, cfg, tree, plan):
        self.prop, self.res, self.cfg, self.tree, self.plan = prop, res, cfg, tree, plan
        self.chdir = os.path.join(tree, cfg.channel)
        self.sha_seen = {}        # final data file relpath -> sha
        self.raw_ok = set()       # (relpath, sha) already inspected
        self.finalized = set()    # T values whose finalizing rename was executed (trace truth)
        self.long_reader = None
        self.extra_readers = []
        self.prev_full = None
        self.props_complete = False
        self.state_fps = []
        self.uuid = cfg.uuid
        # last sample the recording is going to reach (readers poll the whole planned window, also the part that
        # does not exist yet)
        self.planned_hi = None
        try:
            ends = [a + n - 1 for op in plan.get("ops", []) for a, n in RN.op_samples(cfg, op) if n > 0]
            if ends and max(ends) - cfg.start < 10**7:
                self.planned_hi = max(ends) + cfg.typical_capacity() + 1
        except Exception:  # noqa
            pass

    # ---- helpers
    def _fresh_reader(self, k, where):
        import digital_rf

        has_props = os.path.exists(os.path.join(self.chdir, "drf_properties.h5"))
        fin, _, _ = RC.final_files(self.chdir) if os.path.isdir(self.chdir) else ([], [], [])
        try:
            return digital_rf.DigitalRFReader(self.tree)
        except ValueError as e:
            if "No channels found" in str(e) and not has_props and not fin:
                self.res.probe("reader_refused_nothing_published")
                return None
            self._v("reader_construct_fails", k, where, "%s: %s" % (type(e).__name__, str(e)[:200]))
        except Exception as e:  # noqa
            self._v("reader_construct_fails", k, where, "%s: %s" % (type(e).__name__, str(e)[:200]))
        return None

    C06_CLASSES = ("final_file_not_interpretable", "attr_missing", "attr_mismatch", "sequence_num",
                   "init_utc_timestamp", "computer_time", "properties_file", "file_structure")

    def _v(self, cls, k, where, msg, prop=None):
        if self.prop == "C06" and (prop or self.prop) == "C06" and cls not in self.C06_CLASSES:
            # the restart tier of C06 decides only "every final file is interpretable on its own"; what the
            # reader returns across the restart belongs to C02 and is decided there
            self._cross("C02", cls)
            return
        in_props = where.get("in_props_creation", False)
        self.res.violate(prop or self.prop, cls, "state %s (%s): %s" % (k, where.get("next_op"), msg),
                         in_props_creation=in_props, phase=where.get("phase"))

    def _cross(self, prop, cls):
        self.res.cross["%s:%s" % (prop, cls)] = self.res.cross.get("%s:%s" % (prop, cls), 0) + 1

    def _emit(self, errs, k, where):
        for prop, cls, msg in errs:
            if self.prop == "C06" and prop == "C02" and cls == "final_file_unreadable":
                self._v("final_file_not_interpretable", k, where, msg)
            elif prop == self.prop or (self.prop in ("C02", "C09") and prop in ("C01", "C02")):
                self._v(cls, k, where, msg)
            else:
                self._cross(prop, cls)

    # ---- the oracle
    def observe(self, k, op, tracker, phase):
        res, cfg = self.res, self.cfg
        where = {"next_op": op.sig() if op else "exit", "phase": phase,
                 "in_props_creation": bool(op and op.p1.endswith("drf_properties.h5")
                                           and op.kind not in ("openw",) and not self.props_complete)}
        fin, tmp, strays = RC.final_files(self.chdir)
        vis = tracker.visible_model()
        fin_T = sorted(T for _, _, T in fin)
        if tmp and fin:
            res.probe("crash_with_tmp_open_and_final_present")
        if tmp and tmp[0][2] in fin_T:
            res.probe("tmp_and_final_same_period")
        if self.prop in ("C02", "C06"):
            for s in strays:
                self._v("stray_file", k, where, "unexpected path %s in channel dir" % s)
            # (c) byte stability + (a) raw validity
            cur = {}
            for sd, fn, T in fin:
                rel = os.path.join(sd, fn)
                sha = K.file_sha(os.path.join(self.chdir, rel))
                cur[rel] = sha
                if rel in self.sha_seen and self.sha_seen[rel] != sha:
                    self._v("final_file_changed", k, where, "%s changed after publication" % rel)
                self.sha_seen.setdefault(rel, sha)
                if (rel, sha) not in self.raw_ok:
                    errs, _ = RC.check_final_file(cfg, vis, self.chdir, sd, fn, T, uuid=self.uuid)
                    self._emit(errs, k, where)
                    self.raw_ok.add((rel, sha))
                    res.stat("final_files_inspected")
            for rel in self.sha_seen:
                if rel not in cur:
                    self._v("final_file_vanished", k, where, "%s disappeared" % rel)
            # listings ignore tmp files
            try:
                import digital_rf

                listed = digital_rf.list_drf.lsdrf(self.tree)
            except Exception as e:  # noqa
                self._v("listing_fails", k, where, "%s: %s" % (type(e).__name__, e))
                listed = []
            lrel = sorted(os.path.relpath(p, self.chdir) for p in listed)
            exp_l = sorted([os.path.join(sd, fn) for sd, fn, _ in fin] +
                           (["drf_properties.h5"] if os.path.exists(os.path.join(self.chdir, "drf_properties.h5")) else []))
            if any(os.path.basename(p).startswith("tmp.") for p in lrel):
                self._v("listing_shows_tmp", k, where, "lsdrf lists a tmp file: %s" % lrel)
            elif lrel != exp_l and os.path.exists(os.path.join(self.chdir, "drf_properties.h5")):
                self._v("listing_mismatch", k, where, "lsdrf %s != %s" % (lrel[:5], exp_l[:5]))
            expected = vis.restrict_to_files(fin_T)
            rd = self._fresh_reader(k, where)
            if rd is not None:
                self._reader_pass(rd, expected, vis, k, where, "fresh")
        else:  # C09
            expected = vis.restrict_to_files(sorted(self.finalized))
            if sorted(self.finalized) != fin_T:
                res.probe("trace_vs_dir_finalized_differ")
            rd = self._fresh_reader(k, where)
            if rd is not None:
                self._reader_pass(rd, expected, vis, k, where, "fresh")
            if self.long_reader is None:
                self.long_reader = self._fresh_reader(k, where)
                if self.long_reader is not None:
                    res.probe("long_reader_created_at_%s" % ("props_only" if not fin_T else "with_data"))
            if self.long_reader is not None:
                full = self._reader_pass(self.long_reader, expected, vis, k, where, "long")
                if full is not None:
                    if self.prev_full is not None and not contains(full, self.prev_full):
                        self._v("visibility_shrank", k, where,
                                "samples readable at an earlier pass are missing or changed")
                    self.prev_full = full
            for j, (frac, r) in enumerate(self.extra_readers):
                if r is not None:
                    self._reader_pass(r, expected, vis, k, where, "mid%d" % j)

    def maybe_spawn_readers(self, k, nops_est, where_op):
        fr = self.plan.get("reader_at_frac") or []
        while len(self.extra_readers) < len(fr) and k >= int(fr[len(self.extra_readers)] * nops_est):
            where = {"next_op": where_op.sig() if where_op else "exit", "phase": "spawn",
                     "in_props_creation": bool(where_op and where_op.p1.endswith("drf_properties.h5")
                                               and not self.props_complete)}
            self.extra_readers.append((fr[len(self.extra_readers)], self._fresh_reader(k, where)))

    def _reader_pass(self, rd, expected, vis, k, where, age):
        res, cfg = self.res, self.cfg
        res.stat("reader_passes")
        try:
            b = rd.get_bounds(cfg.channel)
        except Exception as e:  # noqa
            self._v("get_bounds_raises", k, where, "[%s] %s: %s" % (age, type(e).__name__, str(e)[:200]))
            return None
        eb = expected.expected_bounds()
        if tuple(b) != tuple(eb):
            self._v("bounds_mismatch", k, where, "[%s] get_bounds %s != %s" % (age, b, eb))
        vb = vis.bounds_written()
        if vb is None:
            return (np.zeros(0, dtype=np.uint64), np.zeros((0, 0), dtype=np.uint64))
        lo, hi = vb
        if cfg.plain_continuous and eb[0] is not None:
            lo, hi = min(lo, eb[0]), max(hi, eb[1])
        errs = RC.read_vs_model(rd, cfg, expected, lo, hi)
        self._emit([(p, c, "[%s] %s" % (age, m)) for p, c, m in errs], k, where)
        full = None
        if not errs:
            try:
                full = flatten(RC.collect_read(rd, cfg, lo, hi))
            except Exception:  # noqa
                full = None
        if self.prop == "C09" and self.planned_hi is not None and self.planned_hi > hi:
            # the same reader object asked for the whole planned window: nothing beyond what is published may come
            # back now - and what it learns about not-yet-existing files and directories must not stick
            errs2 = RC.read_vs_model(rd, cfg, expected, lo, self.planned_hi)
            self.res.probe("reader_polled_beyond_published_data")
            self._emit([(p, c, "[%s, planned window] %s" % (age, m)) for p, c, m in errs2], k, where)
        # targeted reads at the edges of the newest published file
        if expected.segs:
            Ts = expected.files()
            w0, w1 = cfg.window(Ts[-1])
            for (a, b2) in ((w0 - 1, w0), (w0, w0), (w1, w1 + 1)):
                if a >= 0:
                    errs = RC.read_vs_model(rd, cfg, expected, a, b2)
                    self._emit([(p, c, "[%s] %s" % (age, m)) for p, c, m in errs], k, where)
        return full


def _observe_run(prop, plan, res, kill_at=None, torn_at=None):
    """One lock-step execution with the oracle at every boundary.
    kill_at=k : stop at boundary k, snapshot, SIGKILL, compare tree with snapshot.
    torn_at=(k, frac): at boundary k (must be a write kind) tear the write, observe, kill."""
    cfg = M.Cfg(**plan["cfg"])
    ops = plan["ops"]
    sc, tree = _mk_tree("cs")
    try:
        os.makedirs(os.path.join(tree, cfg.channel))
        tracker = Tracker(cfg, ops)
        obs = Observer(prop, res, cfg, tree, plan)
        node = K.Node(tree, _child(tree, cfg, ops), log_path=os.path.join(sc, "node.log"))
        k = 0
        oplist = []
        nops_est = plan.get("_nops", 60)
        try:
            while True:
                ev = node.step()
                if ev is None:
                    break
                if isinstance(ev, dict):
                    tracker.feed(ev)
                    continue
                oplist.append(ev.sig())
                res.trace.add(k, ev.kind, ev.p1, ev.p2, ev.nbytes)
                if kill_at is not None and k == kill_at:
                    snap = K.snapshot(tree, os.path.join(sc, "snap"))
                    fp_before = K.fingerprint(snap)
                    node.kill()
                    fp_after = K.fingerprint(tree)
                    res.fault("real_sigkill")
                    if fp_before != fp_after:
                        raise K.HarnessError("tree after SIGKILL differs from parked snapshot: %s"
                                             % K.fp_diff(fp_before, fp_after))
                    return oplist, tracker, K.fingerprint(tree)
                if torn_at is not None and k == torn_at[0]:
                    if ev.kind not in ("pwrite", "write") or ev.nbytes < 2:
                        node.kill()
                        return oplist, tracker, None
                    r = max(1, min(ev.nbytes - 1, int(torn_at[1] * ev.nbytes)))
                    node.torn(r)
                    ev2 = node.step()
                    while isinstance(ev2, dict):
                        tracker.feed(ev2)
                        ev2 = node.step()
                    if ev2 is None or ev2.kind != "torn":
                        raise K.HarnessError("expected torn park, got %r" % (ev2,))
                    res.fault("torn_write")
                    res.trace.add(k, "torn", r)
                    obs.observe("%d+torn%d" % (k, r), ev, tracker, "torn")
                    node.kill()
                    return oplist, tracker, None
                if kill_at is None and torn_at is None:
                    if prop == "C09":
                        obs.maybe_spawn_readers(k, nops_est, ev)
                    if tracker.unexpected_failure:
                        pass
                    else:
                        obs.observe(k, ev, tracker, "run")
                    res.evals += 1
                node.go()
                if ev.p1.endswith("drf_properties.h5") and ev.kind in ("close", "rename"):
                    obs.props_complete = True
                if _is_final_rename(ev):
                    obs.finalized.add(_T_of(ev.p2))
                if any(c[0] == "op" and not c[2] and not ops[c[1]].get("collide") for c in tracker.calls):
                    tracker.unexpected_failure = True
                k += 1
        finally:
            node.kill()
        if node.died_of_signal():
            res.violate(prop, "node_died", "recorder died: status %s" % node.died_of_signal())
        if tracker.child_exception:
            raise K.HarnessError("child exception: %s" % tracker.child_exception)
        if kill_at is None and torn_at is None:
            if tracker.unexpected_failure:
                res.probe("unexpected_valid_write_failure")
            else:
                # after clean close
                obs.observe("end", None, tracker, "closed")
                fin, tmp, _ = RC.final_files(obs.chdir)
                if tmp:
                    res.violate(prop, "tmp_after_close", "tmp files remain after close: %s" % tmp[:3])
                exp_T = tracker.model.files()
                if prop == "C02" and sorted(T for _, _, T in fin) != exp_T:
                    res.violate(prop, "files_after_close", "final files %s != expected %s" % (
                        sorted(T for _, _, T in fin)[:6], exp_T[:6]))
                if prop == "C09" and sorted(obs.finalized) != exp_T:
                    res.violate(prop, "not_all_visible_after_close",
                                "finalized by trace %s != expected %s" % (sorted(obs.finalized)[:6], exp_T[:6]))
            if prop == "C09" and plan.get("second_session") and not tracker.unexpected_failure:
                _second_session(prop, plan, res, obs, tracker, tree, sc, cfg)
            res.stats["recorder_steps"] = res.stats.get("recorder_steps", 0) + k
            nfiles = len(tracker.model.files())
            res.stats["files"] = res.stats.get("files", 0) + nfiles
            tot = tracker.model.total()
            res.stats["samples"] = res.stats.get("samples", 0) + tot
            res.stats["sample_time_ms"] = res.stats.get("sample_time_ms", 0) + (tot * cfg.d * 1000) // cfg.n
            spans = any(len(cfg.files_of(a, a + n - 1)) > 1 for a, n, _ in tracker.model.segs)
            res.nontrivial = nfiles >= 2 and spans
            if spans:
                res.probe("file_spanning_write")
        return oplist, tracker, None
    finally:
        if not os.environ.get("VSIM_KEEP"):
            shutil.rmtree(sc, ignore_errors=True)


class _UnionTracker:
    """visible model = what an earlier (killed) session had finalized + everything the restarted session attempts"""

    def __init__(self, base_model, tracker):
        self.base, self.t = base_model, tracker

    def feed(self, ev):
        self.t.feed(ev)

    def visible_model(self):
        m = M.RFModel(self.t.cfg)
        m.segs = list(self.base.segs) + list(self.t.attempted.segs)
        return m

    def __getattr__(self, k):
        return getattr(self.t, k)


def _restart_run(prop, plan, res, kill_at):
    """C02 extension: the recorder is SIGKILLed at boundary kill_at, then a NEW recorder process is started on
    the same channel and writes into the very file period that was in progress; every boundary of the second
    process (and its clean close) is evaluated with the same oracle.  Whatever the first process left in a
    tmp. file must never appear under a final name."""
    cfg = M.Cfg(**plan["cfg"])
    ops = plan["ops"]
    sc, tree = _mk_tree("rs")
    try:
        os.makedirs(os.path.join(tree, cfg.channel))
        t1 = Tracker(cfg, ops)
        node = K.Node(tree, _child(tree, cfg, ops), log_path=os.path.join(sc, "node1.log"))
        k = 0
        finalized = set()
        try:
            while True:
                ev = node.step()
                if ev is None:
                    break
                if isinstance(ev, dict):
                    t1.feed(ev)
                    continue
                if k == kill_at:
                    node.kill()
                    break
                node.go()
                if _is_final_rename(ev):
                    finalized.add(_T_of(ev.p2))
                k += 1
        finally:
            node.kill()
        chdir = os.path.join(tree, cfg.channel)
        _, tmp1, _ = RC.final_files(chdir) if os.path.isdir(chdir) else ([], [], [])
        if not tmp1:
            res.probe("restart_without_stale_tmp")
        else:
            res.probe("restart_with_stale_tmp")
        base = t1.attempted.restrict_to_files(sorted(finalized))
        # second recorder: same parameters, starts inside the period that was in progress (or the next one)
        c2 = M.Cfg(**plan["cfg"])
        c2.uuid = "restart"
        if tmp1:
            Tx = tmp1[-1][2]
            lo, hi = cfg.window(Tx)
            c2.start = lo + int(plan.get("restart_off", 0.0) * (hi - lo))
        else:
            # nothing in progress: continue in the period after the last one touched (the one that holds the last
            # sample may already be finalized, where a write is refused by design - C11)
            vb = t1.attempted.bounds_written()
            c2.start = (cfg.window(cfg.file_T(vb[1]))[1] + 1) if vb else cfg.start
        cap = cfg.typical_capacity()
        ops2 = [{"op": "w", "rel": 0, "_rel": 0, "len": max(1, min(cap, 50)), "salt": 7001},
                {"op": "w", "rel": 2 * cap + 3, "_rel": 2 * cap + 3, "len": max(1, min(cap + 2, 60)), "salt": 7002}]
        if plan.get("restart_mode") == "after_bounds" and base.segs:
            # the application resumes right after the last sample a reader reports (get_bounds()[1] + 1): when the
            # file holding that sample is finalized but not full, the write falls into a published period - it must
            # be refused and the published file must stay byte for byte what it was
            c2.start = base.bounds_written()[1] + 1
            if cfg.file_T(c2.start) in finalized:
                room = cfg.window(cfg.file_T(c2.start))[1] - c2.start + 1
                ops2[0] = dict(ops2[0], len=max(1, min(room, 50)), collide=True)
                far = room + 2 * cap + 3
                ops2[1] = dict(ops2[1], rel=far, _rel=far)
                res.probe("restart_resumes_inside_published_period")
        ops2 = ops2[:plan.get("restart_nops", 2)]
        t2 = _UnionTracker(base, Tracker(c2, ops2))
        obs = Observer(prop, res, c2, tree, plan)
        obs.uuid = None
        # files finalized by the first process are part of the ground truth
        node = K.Node(tree, _child(tree, c2, ops2), log_path=os.path.join(sc, "node2.log"))
        k2 = 0
        try:
            while True:
                ev = node.step()
                if ev is None:
                    break
                if isinstance(ev, dict):
                    t2.feed(ev)
                    continue
                res.trace.add("r", k2, ev.kind, ev.p1, ev.p2)
                obs.observe("restart+%d" % k2, ev, t2, "restart")
                res.evals += 1
                node.go()
                k2 += 1
        finally:
            node.kill()
        obs.observe("restart+end", None, t2, "restart_closed")
        if prop == "C02" and tmp1 and cfg.file_T(c2.start) == tmp1[-1][2] and not ops2[0].get("collide"):
            # the restarted recorder's first write went for the very period whose tmp. file the dead process left
            # behind (refused or not): after its *clean* close no tmp. file may remain in the channel
            _, tmp2, _ = RC.final_files(chdir)
            res.probe("restart_reached_stale_tmp_period")
            if tmp2:
                res.violate(prop, "tmp_after_close", "after the clean close of the restarted recorder tmp files remain: %s" % (
                    ["%s/%s" % (a, b) for a, b, _ in tmp2][:3],), restart=True)
        res.fault("real_sigkill_then_restart")
    finally:
        if not os.environ.get("VSIM_KEEP"):
            shutil.rmtree(sc, ignore_errors=True)


def _second_session(prop, plan, res, obs, tracker1, tree, sc, cfg):
    """C09: the recorder is restarted on the same channel while the readers keep running.  Its first write falls
    into the file period the first session finalized last (must be refused, the finalized file stays as it is),
    later writes go to later periods.  The same observer (same long-lived readers, same monotonicity memory)
    runs at every boundary of the second process."""
    files = tracker1.model.files()
    if not files:
        return
    if plan["second_session"].get("earlier"):
        # back-fill: the second recorder (clock stepped back / gap filled from another source) records periods
        # BEFORE everything the first one wrote; the long-lived readers have already reported bounds
        cap = cfg.typical_capacity()
        T0 = files[0] - 3 * cfg.file_ms
        if T0 < 0:
            return
        c2 = M.Cfg(**plan["cfg"])
        c2.uuid = "sess1"
        c2.start = cfg.first_of(T0)
        ln = max(1, min(cap + 2, 60))
        ops2 = [{"op": "w", "rel": 0, "_rel": 0, "len": ln, "salt": 8101}]
        if ln < cap:   # stay clear of the first session's files
            ops2.append({"op": "w", "rel": cap + 1, "_rel": cap + 1, "len": max(1, min(cap // 2, 40)), "salt": 8102})
        if any(cfg.file_T(a + n - 1) >= files[0] for op in ops2 for a, n in RN.op_samples(c2, op)):
            return
        t2 = _UnionTracker(tracker1.model, Tracker(c2, ops2))
        obs.uuid = None
        node = K.Node(tree, _child(tree, c2, ops2), log_path=os.path.join(sc, "node2.log"))
        k2 = 0
        try:
            while True:
                ev = node.step()
                if ev is None:
                    break
                if isinstance(ev, dict):
                    t2.feed(ev)
                    continue
                res.trace.add("s2e", k2, ev.kind, ev.p1, ev.p2)
                if not t2.t.unexpected_failure:
                    obs.observe("backfill+%d" % k2, ev, t2, "second_session")
                    res.evals += 1
                node.go()
                if _is_final_rename(ev):
                    obs.finalized.add(_T_of(ev.p2))
                if any(c[0] == "op" and not c[2] for c in t2.t.calls):
                    t2.t.unexpected_failure = True
                k2 += 1
        finally:
            node.kill()
        if not t2.t.unexpected_failure:
            obs.observe("backfill+end", None, t2, "second_session_closed")
        res.probe("backfill_session_observed")
        return
    lo, hi = cfg.window(files[-1])
    c2 = M.Cfg(**plan["cfg"])
    c2.uuid = "sess1"
    c2.start = lo + int(plan["second_session"]["off"] * (hi - lo))
    cap = cfg.typical_capacity()
    room = hi - c2.start + 1
    ln = max(1, min(room // 2 if plan["second_session"].get("multi") else room + 3, 40))
    after = room + cap + 2
    ops2 = [{"op": "w", "rel": 0, "_rel": 0, "len": ln, "salt": 8001, "collide": True},
            {"op": "w", "rel": after, "_rel": after, "len": max(1, min(cap + 3, 60)), "salt": 8002}]
    if plan["second_session"].get("multi") and c2.start + ln <= hi:
        # a second refused write, again starting inside the finalized period
        ops2.insert(1, {"op": "w", "rel": ln, "_rel": ln, "len": ln, "salt": 8003, "collide": True})
    t2 = _UnionTracker(tracker1.model, Tracker(c2, ops2))
    obs.uuid = None
    node = K.Node(tree, _child(tree, c2, ops2), log_path=os.path.join(sc, "node2.log"))
    k2 = 0
    try:
        while True:
            ev = node.step()
            if ev is None:
                break
            if isinstance(ev, dict):
                t2.feed(ev)
                continue
            res.trace.add("s2", k2, ev.kind, ev.p1, ev.p2)
            if not t2.t.unexpected_failure:
                obs.observe("session2+%d" % k2, ev, t2, "second_session")
                res.evals += 1
            node.go()
            if _is_final_rename(ev):
                obs.finalized.add(_T_of(ev.p2))
            if any(c[0] == "op" and not c[2] and not ops2[c[1]].get("collide") for c in t2.t.calls):
                t2.t.unexpected_failure = True
            k2 += 1
    finally:
        node.kill()
    if t2.t.collide_accepted:
        res.violate(prop, "write_into_finalized_period_accepted", "the restarted recorder's write into the file period "
                    "finalized by the first session was accepted (the published file can no longer stay unchanged)")
    if not t2.t.unexpected_failure:
        obs.observe("session2+end", None, t2, "second_session_closed")
    res.probe("second_session_observed")


# --------------------------------------------------------------------------------------
# C10 : single-fault schedules
# --------------------------------------------------------------------------------------

SPACE_KINDS = ("create", "pwrite", "write", "ftruncate", "mkdir")
FAULT_KINDS = ("create", "openw", "pwrite", "write", "ftruncate", "mkdir", "rename", "close", "unlink")


def _reference(plan):
    """fault-free run: op list, final hashes, API outcomes"""
    cfg = M.Cfg(**plan["cfg"])
    sc, tree = _mk_tree("ref")
    try:
        os.makedirs(os.path.join(tree, cfg.channel))
        tracker = Tracker(cfg, plan["ops"])
        node = K.Node(tree, _child(tree, cfg, plan["ops"]), log_path=os.path.join(sc, "node.log"))
        ops = []
        try:
            while True:
                ev = node.step()
                if ev is None:
                    break
                if isinstance(ev, dict):
                    tracker.feed(ev)
                    continue
                ops.append((ev.kind, ev.p1, ev.p2, ev.nbytes))
                node.go()
        finally:
            node.kill()
        fp = K.fingerprint(tree)
        return ops, tracker, fp
    finally:
        if not os.environ.get("VSIM_KEEP"):
            shutil.rmtree(sc, ignore_errors=True)


def _fault_exec(plan, fault, res, ref_ops, ref_fp):
    """execute the plan with one fault schedule; evaluate C10 clauses. returns list of violations
    as (cls, msg)"""
    cfg = M.Cfg(**plan["cfg"])
    ops = plan["ops"]
    err = K.ERRNO[fault["errno"]]
    p, mode = fault["at"], fault["mode"]
    out = []
    sc, tree = _mk_tree("flt")
    chdir = os.path.join(tree, cfg.channel)
    try:
        os.makedirs(chdir)
        tracker = Tracker(cfg, ops)
        node = K.Node(tree, _child(tree, cfg, ops), log_path=os.path.join(sc, "node.log"))
        k = 0
        fired = 0
        fault_kind = None
        fault_call = None
        pre_sha = {}
        checked = set()
        calls_at_fault = None
        fired_pos = set()

        def check_finals(tag):
            fin, _, _ = RC.final_files(chdir)
            have = set(os.path.join(sd, fn) for sd, fn, T in fin)
            for rel in sorted(set(pre_sha) - have):
                out.append(("prefault_file_removed", "%s: %s was finalized before the fault and does not exist any more" % (tag, rel)))
                del pre_sha[rel]
            for sd, fn, T in fin:
                rel = os.path.join(sd, fn)
                sha = K.file_sha(os.path.join(chdir, rel))
                if rel in pre_sha and pre_sha[rel] != sha:
                    out.append(("prefault_file_changed", "%s: %s finalized before the fault changed" % (tag, rel)))
                    pre_sha[rel] = sha
                if (rel, sha) in checked:
                    continue
                checked.add((rel, sha))
                errs, _ = RC.check_final_file(cfg, tracker.attempted, chdir, sd, fn, T,
                                              want_attrs=False, allow_fill=True)
                for prop, cls, msg in errs:
                    if cls in ("final_file_unreadable", "final_file_wrong_content", "file_structure"):
                        out.append(("bad_final_file", "%s: %s" % (tag, msg)))

        try:
            while True:
                ev = node.step()
                if ev is None:
                    break
                if isinstance(ev, dict):
                    tracker.feed(ev)
                    continue
                res.trace.add(k, ev.kind, ev.p1, ev.nbytes)
                do_fail = False
                if k == p:
                    if ev.kind not in FAULT_KINDS:
                        node.kill()
                        return None  # position is not a faultable op
                    do_fail = True
                    fault_kind = ev.kind
                    fault_call = tracker.inflight
                    calls_at_fault = len(tracker.calls)
                    fin, _, _ = RC.final_files(chdir)
                    for sd, fn, T in fin:
                        pre_sha[os.path.join(sd, fn)] = K.file_sha(os.path.join(chdir, sd, fn))
                elif k > p and mode == "kind" and ev.kind == fault_kind:
                    do_fail = True
                elif k > p and mode == "device":
                    do_fail = (ev.kind in SPACE_KINDS) if fault["errno"] == "ENOSPC" else (ev.kind in FAULT_KINDS)
                if k > p:
                    check_finals("boundary %d" % k)
                if do_fail:
                    fired += 1
                    fired_pos.add(len(tracker.calls))
                    node.fail(err)
                else:
                    node.go()
                k += 1
        finally:
            node.kill()
        res.fault("%s_%s_%s" % (fault["errno"], fault_kind, mode))
        if fired > 1:
            res.fault("persistent_refires", fired - 1)
        if ref_ops[p][1].startswith(cfg.channel) and "tmp.rf" in ref_ops[p][1] and ref_ops[p][0] in ("pwrite", "write") and p > 0:
            # inside the flush of a data file?
            j = p
            while j < len(ref_ops) and ref_ops[j][0] in ("pwrite", "write", "ftruncate"):
                j += 1
            if j < len(ref_ops) and ref_ops[j][0] == "close":
                res.probe("fault_in_close_flush")
        if fault_kind == "rename":
            res.probe("fault_on_finalizing_rename")
        sig = node.died_of_signal()
        if sig and not tracker.done:
            out.append(("node_died", "recorder died with status %s under fault" % sig))
        elif sig:
            # all API calls had returned; death inside libhdf5's own shutdown (H5close after a failed
            # H5Fclose) is not attributable to digital_rf
            res.probe("hdf5_library_shutdown_crash_after_fault")
        if tracker.child_exception:
            raise K.HarnessError("child exception under fault: %s" % tracker.child_exception)
        check_finals("end")
        # the channel properties file is published under a final name as well
        pf = os.path.join(chdir, "drf_properties.h5")
        if os.path.exists(pf):
            try:
                import h5py

                with h5py.File(pf, "r") as f_:
                    if "sample_rate_numerator" not in f_.attrs:
                        out.append(("bad_final_file", "end: drf_properties.h5 published without its attributes"))
            except Exception as e:  # noqa
                out.append(("bad_final_file", "end: drf_properties.h5 published but unreadable: %s: %s" % (
                    type(e).__name__, str(e)[:120])))
        # ---- API-level clauses
        calls = tracker.calls
        accepted = tracker.model
        # final read with a fresh reader
        import digital_rf

        lost = []
        reader_err = None
        try:
            rd = digital_rf.DigitalRFReader(tree)
        except Exception as e:  # noqa
            rd = None
            reader_err = "%s: %s" % (type(e).__name__, str(e)[:120])
        vb = tracker.attempted.bounds_written()
        got = None
        if rd is not None and vb is not None:
            try:
                got = flatten(RC.collect_read(rd, cfg, vb[0], vb[1]))
            except Exception as e:  # noqa
                out.append(("bad_final_file", "end: full read raises %s: %s" % (type(e).__name__, str(e)[:160])))
        if accepted.segs:
            if got is None:
                if rd is None:
                    lost = ["all (reader: %s)" % reader_err]
                elif not any(c == "bad_final_file" for c, _ in out):
                    lost = ["all"]
            else:
                gi, gb = got
                for a, n, salt in accepted.sorted_segs():
                    exp, _ = accepted.expected_bits(a, n)
                    idx = np.arange(n, dtype=np.uint64) + np.uint64(a)
                    pos = np.minimum(np.searchsorted(gi, idx), max(gi.size - 1, 0))
                    if gi.size == 0:
                        lost.append((a, n))
                        continue
                    present = gi[pos] == idx
                    same = np.zeros(n, dtype=bool)
                    same[present] = (gb[pos[present]] == exp[present]).all(axis=1)
                    if not same.all():
                        lost.append((a + int(np.argmin(same)), int((~same).sum())))
        post = calls[calls_at_fault:] if calls_at_fault is not None else []
        # calls from the faulted one on: (kind, i, ok, exc)
        if lost:
            res.probe("accepted_samples_lost")
            # Every firing of the (possibly persistent) fault is a candidate cause.  The loss is silent
            # only if for EVERY candidate neither the call it fired in nor the next write call reported
            # an error although such a next write call exists.  A firing inside close() (no error
            # channel, nothing after it) or with no later write call is exempt.
            def failed(j):
                return 0 <= j < len(calls) and not calls[j][2]

            verdicts = []
            for f in sorted(fired_pos):
                if f >= len(calls) or calls[f][0] == "close":
                    verdicts.append("exempt_close")
                elif failed(f) or (f + 1 < len(calls) and calls[f + 1][0] == "op" and failed(f + 1)):
                    verdicts.append("reported")
                elif f + 1 < len(calls) and calls[f + 1][0] == "op":
                    verdicts.append("silent")
                else:
                    verdicts.append("exempt_no_later_write")
            if verdicts and all(v == "silent" for v in verdicts):
                out.append(("silent_loss", "accepted samples %s are not readable, but neither the "
                            "faulted call nor the next write call reported an error (calls from the "
                            "fault on: %s)" % (lost[:3], [(c[0], c[1], c[2]) for c in post][:4])))
            elif "exempt_close" in verdicts:
                res.probe("loss_in_final_close_exempt")
            elif "exempt_no_later_write" in verdicts:
                res.probe("loss_with_no_later_write_call_to_report")
        # (4) once an error was reported, every later write is refused
        seen_err = False
        for c in post:
            if c[0] == "open" and not c[2]:
                seen_err = True
            if c[0] == "op":
                if seen_err and c[2]:
                    out.append(("write_accepted_after_error", "write call %s succeeded after an earlier call "
                                "had reported the failure" % (c[1],)))
                    break
                if not c[2]:
                    seen_err = True
        if seen_err:
            res.probe("error_reported")
        elif not lost:
            res.probe("fault_absorbed_no_effect")
        res.stats["recorder_steps"] = res.stats.get("recorder_steps", 0) + k
        return out
    finally:
        if not os.environ.get("VSIM_KEEP"):
            shutil.rmtree(sc, ignore_errors=True)


def _run_c10(plan, res):
    ref_ops, ref_tracker, ref_fp = _reference(plan)
    if any(c[0] == "op" and not c[2] for c in ref_tracker.calls) or ref_tracker.child_exception:
        res.probe("unexpected_valid_write_failure")
        return
    N = len(ref_ops)
    res.trace.add("ref", N)
    if isinstance(plan.get("faults"), list):
        faults = plan["faults"]
    elif plan.get("faults") == "all":
        faults = [{"at": p, "errno": e, "mode": m} for p in range(N) if ref_ops[p][0] in FAULT_KINDS
                  for e in ("ENOSPC", "EIO") for m in ("once", "kind", "device")]
    else:
        seen, faults = set(), []
        cand = [p for p in range(N) if ref_ops[p][0] in FAULT_KINDS]
        for f, e, m in plan.get("fault_fracs", []):
            p = cand[int(f * len(cand))] if cand else 0
            if (p, e, m) not in seen and cand:
                seen.add((p, e, m))
                faults.append({"at": p, "errno": e, "mode": m})
    n_exec = 0
    for fault in faults:
        v = _fault_exec(plan, fault, res, ref_ops, ref_fp)
        if v is None:
            continue
        n_exec += 1
        for cls, msg in v:
            derived = copy.deepcopy(plan)
            derived["faults"] = [fault]
            derived.pop("fault_fracs", None)
            opk = ref_ops[fault["at"]]
            res.violate("C10", cls, "fault %s at op %d (%s %s): %s" % (
                fault, fault["at"], opk[0], opk[1], msg),
                op_kind=opk[0], target=("properties" if opk[1].endswith("drf_properties.h5") else
                                        "data" if "rf@" in opk[1] else "dir"),
                mode=fault["mode"], errno=fault["errno"])
            res.violations[-1]["plan"] = derived
    res.evals = max(1, n_exec)
    res.stats["files"] = len(ref_tracker.model.files())
    res.nontrivial = n_exec >= 2 and len(ref_tracker.model.files()) >= 1


# --------------------------------------------------------------------------------------
# entry point
# --------------------------------------------------------------------------------------

def run_plan(prop, plan):
    res = K.RunResult()
    _tree_parent[0] = "tmp.Zk3Qx9" if plan.get("tmp_in_path") else None
    if plan.get("tmp_in_path"):
        res.probe("tmp_dot_in_channel_path")
    if prop == "C10":
        _run_c10(plan, res)
        return res
    oplist, tracker, _ = _observe_run(prop, plan, res)
    N = len(oplist)
    if prop == "C02" and not tracker.unexpected_failure:
        kf = plan.get("kill_frac")
        if kf is not None and N:
            r2 = K.RunResult()
            _observe_run(prop, plan, r2, kill_at=int(kf * N))
            res.faults["real_sigkill"] = res.faults.get("real_sigkill", 0) + r2.faults.get("real_sigkill", 0)
            res.evals += 1
        rf = plan.get("restart_frac")
        if rf is not None and N:
            r4 = K.RunResult()
            _restart_run(prop, plan, r4, int(rf * N))
            for v in r4.violations:
                v["sig"]["restart"] = True
                res.violations.append(v)
            for kk, vv in list(r4.faults.items()) + list(r4.probes.items()):
                (res.faults if kk in r4.faults else res.probes)[kk] = (res.faults if kk in r4.faults else res.probes).get(kk, 0) + vv
            res.evals += r4.evals
        wpos = [i for i, s in enumerate(oplist) if s.startswith(("pwrite ", "write "))]
        for f, frac in plan.get("torn") or []:
            if not wpos:
                break
            kpos = wpos[int(f * len(wpos))]
            r3 = K.RunResult()
            _observe_run(prop, plan, r3, torn_at=(kpos, frac))
            for v in r3.violations:
                v["sig"]["torn"] = True
                res.violations.append(v)
            for kk, vv in r3.faults.items():
                res.faults[kk] = res.faults.get(kk, 0) + vv
            res.evals += 1
    return res


COMPONENTS = {
    "real": ["c/lib/rf_write_hdf5.c", "python/lib/py_rf_write_hdf5.c", "libhdf5 1.10.8 (writer)",
             "h5py / HDF5 2.0.0 (reader)", "DigitalRFWriter", "DigitalRFReader", "list_drf.lsdrf",
             "kernel file system (tmpfs)"],
    "stubbed": ["wall clock (virtual, advanced 1 ms per FS op)", "process death (SIGKILL of parked node; "
                "equivalence parked==killed cross-checked)"],
}
