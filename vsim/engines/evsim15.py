"""E5/C15 - event filter vs listing, finalizing rename is a creation.

The stub observer feeds a recording subclass of the real DigitalRFEventHandler with
 (i) the event stream derived from the FS-op trace of a real recording (lock-step node):
     create tmp.X -> created, pwrite -> modified, close -> closed, rename(tmp.X, X) -> moved,
     mkdir -> dir created; and
 (ii) noise events over a bounded grammar of valid and near-miss paths, all event kinds,
     moved events in the four src/dest combinations, windows at and around the file times.
Oracle = differential against the real listing: the callback fires for P iff lsdrf on a scratch
tree that holds P inside channel directories lists P (grammar and kind decided by the listing
code) and P's name time lies in the window (exact comparison; the metadata forward-fill extra is
thereby left aside).
"""
from __future__ import annotations

import copy
import datetime
import os
import re
import shutil

from .. import kernel as K
from .. import model_rf as M
from .. import rfnode as RN

_counter = [0]

SUBDIRS = ["2014-03-09T12-30-30", "2014-03-09T12:30:30", "2014-3-9T12-30-30", "20140309T123030",
           "2014-03-09T12-30-30x", "x2014-03-09T12-30-30", None, "2014-03-09T12-30"]
BASE = 1394368230  # 2014-03-09T12:30:30Z

FILES = [
    "rf@{s}.{f}.h5", "rf@{s}.{f}.h5", "rf@{s}.{f}.h5", "md@{s}.h5", "md@{s}.h5", "metadata@{s}.h5",
    "tmp.rf@{s}.{f}.h5", "tmp.md@{s}.h5", "rf@{s}.{f2}.h5", "rf@{s}.{f}0.h5", "rf@{s}.{f}.hdf5",
    "rf@{s}.{f}.h5.bak", "rf{s}.{f}.h5", "@{s}.{f}.h5", "rf@abc.{f}.h5", "a.tmp.rf@{s}.{f}.h5",
    "drf_properties.h5", "dmd_properties.h5", "metadata.h5", "tmp.drf_properties.h5",
    "drf_properties.h5.tmp", "xdrf_properties.h5", "rf@{s}.{f}.h5x", "ch@2@{s}.{f}.h5", "rf@{s}.h5",
    "rf@-5.{f}.h5",  # (upper-case variants are outside the quantifier: "fixed parts in the format's own lower case")
]
CHPATHS = ["ch0", "a/b", "", "ch0/metadata", "deep/er/ch"]
KINDS = ["created", "modified", "deleted", "moved", "closed", "opened", "dir_created", "dir_moved", "dir_deleted"]

RE_TIME = re.compile(r"@(\d+)(?:\.(\d{3}))?\.h5$")


def _mkpath(rng, window):
    ch = rng.choice(CHPATHS)
    sd = rng.choice(SUBDIRS[:1] * 6 + SUBDIRS)
    tmpl = rng.choice(FILES)
    # seconds at and around the window edges
    if window and rng.random() < 0.7:
        edge_ms = rng.choice([w for w in window if w is not None] or [BASE * 1000])
        ms = edge_ms + rng.choice([-1000, -1, 0, 0, 1, 1000, 999, -999])
    else:
        ms = BASE * 1000 + rng.randrange(-5000, 5000)
    s, f = ms // 1000, ms % 1000
    if "{f}" not in tmpl and "{f2}" not in tmpl and "{s}" in tmpl:
        # metadata style (second resolution): sometimes exactly on the edge second
        pass
    name = tmpl.format(s=s, f="%03d" % f, f2="%02d" % (f // 10))
    parts = [p for p in (ch, sd, name) if p]
    if name == "metadata.h5" or "properties" in name:
        # properties-like names sit directly in a channel directory (a timestamp-named directory holding
        # a properties file is outside "files at the format's depth")
        if sd is None or sd == SUBDIRS[0] or rng.random() < 0.8:
            parts = [p for p in (ch, name) if p]
    return "/".join(parts)


def gen_plan(prop, tier, rng, i):
    # handler configuration
    def tri():
        return rng.choice([True, False, None])
    flags = {"include_drf": rng.random() < 0.7, "include_dmd": rng.random() < 0.7,
             "include_drf_properties": tri(), "include_dmd_properties": tri()}
    wstart = wend = None
    r = rng.random()
    if r < 0.7:
        wstart = BASE * 1000 + rng.choice([0, 0, -2000, 1500, 1, 999])
    if r > 0.3:
        wend = (wstart if wstart is not None else BASE * 1000) + rng.choice([0, 1, 1000, 2000, 3999, 60000])
    events = []
    n = 80 if tier == "quick" else 300
    for _ in range(n):
        k = rng.choice(KINDS[:4] * 4 + KINDS)
        ev = {"k": k, "src": _mkpath(rng, (wstart, wend))}
        if k in ("moved", "dir_moved"):
            if rng.random() < 0.4:
                # the writer's finalizing rename
                sd = SUBDIRS[0]
                ms = (wstart if wstart is not None and rng.random() < 0.6 else BASE * 1000) + rng.choice([-1, 0, 1, 500, 2000])
                nm = rng.choice(["rf@%d.%03d.h5" % (ms // 1000, ms % 1000), "md@%d.h5" % (ms // 1000)])
                ev["src"] = "ch0/%s/tmp.%s" % (sd, nm)
                ev["dst"] = "ch0/%s/%s" % (sd, nm)
            else:
                ev["dst"] = _mkpath(rng, (wstart, wend))
        if k in ("created", "moved") and rng.random() < 0.12:
            ev["synthetic"] = True
        events.append(ev)
        if rng.random() < 0.1:
            # a replayed existing file (dispatched without the window test, as DigitalRFMirror.start() does), then
            # ordinary time-checked events for the same and for another path
            ms = (wstart if wstart is not None else BASE * 1000) + rng.choice([-5000, -1000, -1, 0, 7000])
            nm = rng.choice(["rf@%d.%03d.h5" % (ms // 1000, ms % 1000), "metadata@%d.h5" % (ms // 1000)])
            pth = "ch0/%s/%s" % (SUBDIRS[0], nm)
            events.append({"k": "created", "src": pth, "untimed": True})
            for _ in range(rng.randrange(1, 3)):
                events.append({"k": rng.choice(["modified", "deleted", "created"]), "src": pth})
    plan = {"engine": "evsim15", "flags": flags, "wstart": wstart, "wend": wend, "events": events,
            "recording": None, "tzform": rng.choice(["utc", "utc", "naive", "+0530", "-0800"]),
            # time zone of the process that builds the handler (naive bounds mean UTC whatever it is)
            "proc_tz": rng.choice([None, None, "XYZ5", "ABC-05:30", "EST5EDT,M3.2.0,M11.1.0"]),
            # where the watched tree lives (a `mktemp -d` directory is called tmp.XXXXXXXXXX)
            "root_dir": rng.choice([None, None, None, "tmp.k3J9xQ2v1B/watched", "tmp.data"])}
    if rng.random() < 0.05:
        # a window bound exactly at the Unix epoch (a zero offset is still a bound), files named at and after time 0
        plan["wstart"] = rng.choice([None, 0, -5000])
        plan["wend"] = rng.choice([0, 0, 3000])
        for ms_ in (0, 0, 1000, 5000, 1394368230000):
            nm_ = rng.choice(["rf@%d.%03d.h5" % (ms_ // 1000, ms_ % 1000), "metadata@%d.h5" % (ms_ // 1000)])
            events.append({"k": rng.choice(["created", "modified", "deleted"]), "src": "ch0/1970-01-01T00-00-00/" + nm_})
            events.append({"k": "moved", "src": "ch0/1970-01-01T00-00-00/tmp." + nm_, "dst": "ch0/1970-01-01T00-00-00/" + nm_})
        plan["events"] = events
    elif rng.random() < 0.3:
        # bounds need not be whole milliseconds (datetimes carry microseconds); the events above sit on the integer
        # edges, so a file named exactly T is outside a window that starts at T + 0.5 ms
        if plan["wstart"] is not None:
            plan["wstart"] += rng.choice([0.5, 0.001, 0.999])
        if plan["wend"] is not None and rng.random() < 0.5:
            plan["wend"] += rng.choice([0.5, 0.001, 0.999])
        if plan["wstart"] is not None and plan["wend"] is not None and plan["wend"] < plan["wstart"]:
            plan["wend"] = plan["wstart"]
    if i % 5 == 4:
        # thread tier: the thread that replays existing files (dispatch without window test, as
        # DigitalRFMirror.start() does on the caller's thread) runs concurrently with the observer thread that
        # delivers live events to the same handler object; a seeded baton decides every switch between them
        replay = []
        for _ in range(rng.randrange(3, 8)):
            ms = int(wstart if wstart is not None else BASE * 1000) + rng.choice([-5000, -1000, -1, 0, 500, 7000, 70000])
            nm = rng.choice(["rf@%d.%03d.h5" % (ms // 1000, ms % 1000), "metadata@%d.h5" % (ms // 1000)])
            replay.append("ch0/%s/%s" % (SUBDIRS[0], nm))
        plan["threads"] = {"seed": rng.randrange(2**32), "p_switch": rng.choice([0.05, 0.2, 0.5]), "replay": replay,
                           "live": [e for e in events if e["k"] in ("created", "modified", "deleted", "moved")
                                    and not e.get("untimed")][:rng.randrange(6, 16)]}
    if i % 3 == 0:
        cfg = M.gen_cfg(rng, {"maxcap": 100})
        t = 0
        while cfg.typical_capacity() > 400 and t < 20:
            cfg = M.gen_cfg(rng, {"maxcap": 100})
            t += 1
        ops = M.gen_writes(rng, cfg, rng.randrange(1, 4), maxlen=max(2, 3 * cfg.typical_capacity()))
        plan["recording"] = {"cfg": cfg.to_json(), "ops": ops[:3]}
        # window relative to the recording instead
        T0 = cfg.file_T(cfg.start)
        if wstart is not None:
            plan["wstart"] = T0 + rng.choice([0, cfg.file_ms, -cfg.file_ms, 1])
        if wend is not None:
            plan["wend"] = (plan["wstart"] or T0) + rng.choice([0, cfg.file_ms, 5 * cfg.file_ms, 10**7])
    return plan


def shrink_candidates(plan):
    ev = plan["events"]
    n = len(ev)
    if plan.get("recording"):
        p = copy.deepcopy(plan)
        p["recording"] = None
        yield p
    if n > 1:
        for part in (ev[: n // 2], ev[n // 2:]):
            p = copy.deepcopy(plan)
            p["events"] = part
            yield p
    for i in range(n):
        p = copy.deepcopy(plan)
        p["events"] = [ev[i]]
        if n > 1:
            yield p
    if n == 1:
        p = copy.deepcopy(plan)
        p["events"] = []
        yield p


def _dt(ms, form="utc"):
    if ms is None:
        return None
    t = datetime.datetime(1970, 1, 1, tzinfo=datetime.timezone.utc) + datetime.timedelta(milliseconds=ms)
    if form == "naive":
        return t.replace(tzinfo=None)
    if form == "+0530":
        return t.astimezone(datetime.timezone(datetime.timedelta(hours=5, minutes=30)))
    if form == "-0800":
        return t.astimezone(datetime.timezone(datetime.timedelta(hours=-8)))
    return t


def _name_ms(path):
    m = RE_TIME.search(path)
    if not m:
        return None
    return int(m.group(1)) * 1000 + int(m.group(2) or 0)


class Oracle:
    """listed(P): does the real listing list P when P sits inside channel directories?"""

    def __init__(self, scratch, flags, wstart, wend):
        self.scratch, self.flags, self.wstart, self.wend = scratch, flags, wstart, wend
        self.cache = {}
        self.cache_untimed = {}
        self.n = 0

    def accepted(self, rel, timed=True):
        """timed=False: the caller asked for no window test (how the mirror replays the files an existing listing
        returned, e.g. the forward-fill metadata file from before the window)"""
        if not timed:
            saved = self.wstart, self.wend
            self.wstart = self.wend = None
            cache, self.cache = self.cache, self.cache_untimed
            try:
                return self.accepted(rel)
            finally:
                self.wstart, self.wend = saved
                self.cache = cache
        if rel in self.cache:
            return self.cache[rel]
        import digital_rf

        self.n += 1
        root = os.path.join(self.scratch, "o%d" % self.n)
        p = os.path.join(root, rel)
        d = os.path.dirname(p)
        os.makedirs(d, exist_ok=True)
        # every directory from the root to P's directory is made a channel directory of both kinds
        cur = root
        dirs = [root]
        for part in os.path.relpath(d, root).split(os.sep):
            if part != ".":
                cur = os.path.join(cur, part)
                dirs.append(cur)
        for dd in dirs:
            for pf in ("drf_properties.h5", "dmd_properties.h5"):
                fp = os.path.join(dd, pf)
                if not os.path.exists(fp):
                    open(fp, "w").close()
        if not os.path.exists(p):
            open(p, "w").close()
        listed = digital_rf.list_drf.lsdrf(root, recursive=True, **self.flags)
        ok = p in listed
        if ok:
            ms = _name_ms(os.path.basename(p))
            base = os.path.basename(p)
            is_prop = base in ("drf_properties.h5", "dmd_properties.h5", "metadata.h5")
            if ms is not None and not is_prop:
                if self.wstart is not None and ms < self.wstart:
                    ok = False
                if self.wend is not None and ms > self.wend:
                    ok = False
        shutil.rmtree(root, ignore_errors=True)
        self.cache[rel] = ok
        return ok


def run_plan(prop, plan):
    import digital_rf
    from digital_rf import watchdog_drf
    from watchdog import events as we

    res = K.RunResult()
    _counter[0] += 1
    sc = K.new_scratch("ev15-%d-%d" % (os.getpid(), _counter[0]))
    root = os.path.join(sc, plan.get("root_dir") or "watched")
    os.makedirs(root)
    flags = dict(plan["flags"])
    old_tz = os.environ.get("TZ")
    if plan.get("proc_tz"):
        import time as _time

        os.environ["TZ"] = plan["proc_tz"]
        _time.tzset()
        res.probe("process_tz_not_utc")
    try:
        calls = []

        class Rec(watchdog_drf.DigitalRFEventHandler):
            def on_created(self, e):
                calls.append(("created", e.src_path, None))

            def on_deleted(self, e):
                calls.append(("deleted", e.src_path, None))

            def on_modified(self, e):
                calls.append(("modified", e.src_path, None))

            def on_moved(self, e):
                calls.append(("moved", e.src_path, e.dest_path))

            def on_closed(self, e):
                calls.append(("closed", e.src_path, None))

            def on_opened(self, e):
                calls.append(("opened", e.src_path, None))

        try:
            h = Rec(starttime=_dt(plan["wstart"], plan.get("tzform", "utc")), endtime=_dt(plan["wend"], plan.get("tzform", "utc")),
                    **flags)
        except ValueError:
            # "Must include at least one file type": nothing can be listed either
            idrf = flags["include_drf"]
            idmd = flags["include_dmd"]
            p1 = flags["include_drf_properties"] if flags["include_drf_properties"] is not None else idrf
            p2 = flags["include_dmd_properties"] if flags["include_dmd_properties"] is not None else idmd
            if idrf or idmd or p1 or p2:
                res.violate("C15", "handler_refuses_flags", "handler refuses flags %s" % flags)
            res.probe("no_kind_selected")
            res.nontrivial = False
            return res
        oracle = Oracle(sc, flags, plan["wstart"], plan["wend"])
        events = list(plan["events"])
        # events derived from a real recording
        if plan.get("recording"):
            cfg = M.Cfg(**plan["recording"]["cfg"])
            tree = os.path.join(sc, "rec")
            os.makedirs(os.path.join(tree, cfg.channel))

            def child(report):
                RN.run_session(report, tree, cfg, plan["recording"]["ops"])

            node = K.Node(tree, child)
            derived = []
            try:
                while True:
                    ev = node.step()
                    if ev is None:
                        break
                    if isinstance(ev, dict):
                        continue
                    if ev.kind == "create":
                        derived.append({"k": "created", "src": ev.p1})
                    elif ev.kind in ("pwrite", "write"):
                        if not derived or derived[-1] != {"k": "modified", "src": ev.p1}:
                            derived.append({"k": "modified", "src": ev.p1})
                    elif ev.kind == "close":
                        derived.append({"k": "closed", "src": ev.p1})
                    elif ev.kind == "rename":
                        derived.append({"k": "moved", "src": ev.p1, "dst": ev.p2, "finalizing": True})
                        res.probe("finalizing_rename_from_real_writer")
                    elif ev.kind == "mkdir":
                        derived.append({"k": "dir_created", "src": ev.p1})
                    node.go()
            finally:
                node.kill()
            events = derived + events
            res.stats["recorder_steps"] = len(derived)
        mk = {"created": we.FileCreatedEvent, "modified": we.FileModifiedEvent, "deleted": we.FileDeletedEvent,
              "closed": we.FileClosedEvent, "opened": we.FileOpenedEvent, "dir_created": we.DirCreatedEvent,
              "dir_deleted": we.DirDeletedEvent}
        for ei, ev in enumerate(events):
            k = ev["k"]
            src = os.path.join(root, ev["src"])
            dst = os.path.join(root, ev["dst"]) if "dst" in ev else None
            syn = bool(ev.get("synthetic"))
            if k == "moved":
                e = we.FileMovedEvent(src, dst, is_synthetic=syn)
            elif k == "dir_moved":
                e = we.DirMovedEvent(src, dst)
            else:
                e = mk[k](src, is_synthetic=syn) if syn else mk[k](src)
            if syn:
                # (what watchdog generates for the files of a directory that was moved into / inside the watched tree)
                res.probe("synthetic_event")
            del calls[:]
            timed = not ev.get("untimed")
            try:
                if timed:
                    h.dispatch(e)
                else:
                    h.dispatch(e, match_time=False)
                    res.probe("dispatch_without_time_matching")
            except Exception as ex:  # noqa
                res.violate("C15", "dispatch_raises", "dispatch(%s %s) raised %s: %s" % (k, ev["src"], type(ex).__name__, ex))
                continue
            got = list(calls)
            res.trace.add(ei, k, ev["src"], ev.get("dst"), got and got[0][0])
            res.stat("events")
            if k.startswith("dir_"):
                exp = []
            elif k == "moved":
                a_s, a_d = oracle.accepted(ev["src"], timed), oracle.accepted(ev["dst"], timed)
                if a_s and a_d:
                    exp = [("moved", src, dst)]
                    res.probe("move_both_match")
                elif a_d:
                    exp = [("created", dst, None)]
                    res.probe("move_to_matching_is_creation")
                elif a_s:
                    exp = [("deleted", src, None)]
                    res.probe("move_from_matching_is_deletion")
                else:
                    exp = []
            else:
                exp = [(k, src, None)] if oracle.accepted(ev["src"], timed) else []
                if exp:
                    res.probe("accepted_" + k)
            if got != exp:
                kind = ("spurious" if got and not exp else "missed" if exp and not got else "wrong_kind")
                tmpish = os.path.basename(ev["src"]).startswith("tmp.") or (ev.get("dst") and os.path.basename(ev["dst"]).startswith("tmp."))
                res.violate("C15", "filter_disagrees_" + kind,
                            "event %s(%s%s): handler called %s, listing-based expectation %s (flags %s window %s..%s)" % (
                                k, ev["src"], " -> " + ev["dst"] if "dst" in ev else "",
                                [(g[0], os.path.relpath(g[1], root)) for g in got],
                                [(g[0], os.path.relpath(g[1], root)) for g in exp], flags, plan["wstart"], plan["wend"]),
                            kind=k, tmp=bool(tmpish))
        res.nontrivial = res.probes.get("accepted_created", 0) + res.probes.get("move_to_matching_is_creation", 0) > 0
        if plan.get("threads"):
            _run_threads(plan, res, root, h, calls, oracle)
        res.stats["distinct_paths_judged_by_listing"] = len(oracle.cache)
        return res
    finally:
        if plan.get("proc_tz"):
            import time as _time

            if old_tz is None:
                os.environ.pop("TZ", None)
            else:
                os.environ["TZ"] = old_tz
            _time.tzset()
        if not os.environ.get("VSIM_KEEP"):
            shutil.rmtree(sc, ignore_errors=True)


def _run_threads(plan, res, root, h, calls, oracle):
    """two real threads on ONE handler object under a baton scheduler; pre-emption points are the line events of
    watchdog_drf.py.  The filter is stateless by contract, so every dispatch has the same schedule-independent
    expectation as in the sequential part."""
    import sys
    import threading

    from watchdog import events as we

    from .evsim16 import Baton, StepCap

    th = plan["threads"]
    mk = {"created": we.FileCreatedEvent, "modified": we.FileModifiedEvent, "deleted": we.FileDeletedEvent}

    def expect(ev, timed):
        src = os.path.join(root, ev["src"])
        if ev["k"] == "moved":
            dst = os.path.join(root, ev["dst"])
            a_s, a_d = oracle.accepted(ev["src"], timed), oracle.accepted(ev["dst"], timed)
            if a_s and a_d:
                return [("moved", src, dst)]
            if a_d:
                return [("created", dst, None)]
            if a_s:
                return [("deleted", src, None)]
            return []
        return [(ev["k"], src, None)] if oracle.accepted(ev["src"], timed) else []

    # expectations are computed before the threads start (the listing oracle is not part of the schedule)
    jobs = {"replay": [({"k": "created", "src": p_}, False) for p_ in th["replay"]],
            "live": [(e, True) for e in th["live"]]}
    exps = {t: [expect(e, timed) for e, timed in lst] for t, lst in jobs.items()}
    baton = Baton(th["seed"], th["p_switch"], cap=400000)
    tids, per_thread, errors = {}, {"replay": [], "live": []}, []

    class _NoLock:
        owner = None

    nolock = _NoLock()

    def tracer_for(tid):
        def local(frame, event, arg):
            if event == "line":
                baton.yield_point(tid, "L%d" % frame.f_lineno, nolock)
            return local

        def glob(frame, event, arg):
            if frame.f_code.co_filename.endswith("watchdog_drf.py"):
                return local
            return None
        return glob

    def body(tid):
        tids[threading.get_ident()] = tid
        try:
            baton.wait_turn(tid)
            sys.settrace(tracer_for(tid))
            try:
                for (ev, timed) in jobs[tid]:
                    src = os.path.join(root, ev["src"])
                    e = we.FileMovedEvent(src, os.path.join(root, ev["dst"])) if ev["k"] == "moved" else mk[ev["k"]](src)
                    mine = []
                    cur[threading.get_ident()] = mine
                    if timed:
                        h.dispatch(e)
                    else:
                        h.dispatch(e, match_time=False)
                    per_thread[tid].append(list(mine))
            finally:
                sys.settrace(None)
        except StepCap as e:
            errors.append("step cap: %s" % e)
        except Exception as e:  # noqa
            errors.append("%s: %s" % (type(e).__name__, e))
        finally:
            baton.finish(tid)

    # route the recording handler's calls to the dispatching thread's list
    cur = {}

    class _Router(list):
        def append(self, item):  # noqa
            cur[threading.get_ident()].append(item)

    saved = calls[:]
    router = _Router()
    # the Rec handler closes over the name `calls`: swap the list's behaviour by monkeypatching its class is not
    # possible for a plain list, so the handler methods are re-bound here
    for name, kind in (("on_created", "created"), ("on_deleted", "deleted"), ("on_modified", "modified"),
                       ("on_closed", "closed"), ("on_opened", "opened")):
        setattr(h, name, (lambda k_: (lambda e_: router.append((k_, e_.src_path, None))))(kind))
    h.on_moved = lambda e_: router.append(("moved", e_.src_path, e_.dest_path))
    baton.register(["live", "replay"])
    ts = [threading.Thread(target=body, args=(t,), daemon=True) for t in ("replay", "live")]
    for t in ts:
        t.start()
    for t in ts:
        t.join(60)
    if any(t.is_alive() for t in ts):
        baton.failed = "deadlock"
        with baton.cv:
            baton.cv.notify_all()
        raise K.HarnessError("C15 thread tier: threads did not finish")
    if errors:
        res.violate("C15", "dispatch_raises", "[threads] %s" % errors[0])
        return
    res.fault("thread_switch", baton.switches)
    res.stats["thread_steps"] = res.stats.get("thread_steps", 0) + baton.steps
    res.probe("thread_tier")
    for tid in ("replay", "live"):
        for (ev, timed), got, exp in zip(jobs[tid], per_thread[tid], exps[tid]):
            if got != exp:
                kind = ("spurious" if got and not exp else "missed" if exp and not got else "wrong_kind")
                res.violate("C15", "filter_disagrees_" + kind,
                            "[threads, %s thread, %d switches] event %s(%s)%s: handler called %s, listing-based expectation %s" % (
                                tid, baton.switches, ev["k"], ev["src"], "" if timed else " dispatched without window test",
                                [(g[0], os.path.relpath(g[1], root)) for g in got],
                                [(g[0], os.path.relpath(g[1], root)) for g in exp]), kind=ev["k"], threads=True)
                return


COMPONENTS = {
    "real": ["watchdog_drf.DigitalRFEventHandler.dispatch", "list_drf.lsdrf (as oracle)", "watchdog event classes",
             "C writer + HDF5 (source of the real event stream in a third of the runs)"],
    "stubbed": ["watchdog Observer / emitter / inotify (events are constructed by the simulator)", "DirWatcher"],
}
