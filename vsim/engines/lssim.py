"""E4 lssim - listing (C14) and the cp / mv / ln transfer tools (C18).

C14: generated trees (nested channels, RF / metadata / legacy channels, empty subdirectories,
stray and tmp files, near-miss names) x include flags x recursive x reverse x windows, compared
with a set-theoretic listing model; plus the part only a simulator reaches: the lazy generator
ilsdrf is advanced one item at a time while subdirectories vanish, are emptied or gain files
between the moment their name was enumerated and the moment they are listed (readdir seam).
C18: drf cp / mv / ln on trees holding real recordings plus noise, compared with what the
equivalent listing selects.
"""
from __future__ import annotations

import copy
import datetime
import os
import re
import shutil

from .. import kernel as K
from .. import model_rf as M
from .. import rfnode as RN
from .. import seams

_counter = [0]
BASE = 1394368200  # 2014-03-09T12:30:00Z

RE_SUBDIR = re.compile(r"^\d{4}-\d\d-\d\dT\d\d-\d\d-\d\d$")
RE_DRFFILE = re.compile(r"^(?!tmp\.)(?P<name>.+?)@(?P<secs>\d+)\.(?P<frac>\d{3})\.h5$")
RE_DMDFILE = re.compile(r"^(?!tmp\.)(?P<name>.+?)@(?P<secs>\d+)\.h5$")
DRFPROPS = ("drf_properties.h5", "metadata.h5")
DMDPROPS = ("dmd_properties.h5", "metadata.h5")


def _sd(sec):
    return (datetime.datetime(1970, 1, 1) + datetime.timedelta(seconds=sec)).strftime("%Y-%m-%dT%H-%M-%S")


def _dt(ms, form="utc"):
    """window bound as the API accepts it: aware UTC, naive (= UTC), or aware in another zone (same instant);
    ms may carry a sub-millisecond fraction"""
    if ms is None:
        return None
    t = datetime.datetime(1970, 1, 1, tzinfo=datetime.timezone.utc) + datetime.timedelta(milliseconds=ms)
    if form == "naive":
        return t.replace(tzinfo=None)
    if form == "+0530":
        return t.astimezone(datetime.timezone(datetime.timedelta(hours=5, minutes=30)))
    if form == "-0800":
        return t.astimezone(datetime.timezone(datetime.timedelta(hours=-8)))
    return t


def _iso(ms, form="z"):
    """a command-line time identifier for the instant ms (whole seconds): ISO 8601 in UTC, without zone (= UTC),
    with another UTC offset, or a Unix time stamp"""
    if form == "naive":
        return _dt(ms).strftime("%Y-%m-%dT%H:%M:%S")
    if form in ("+0530", "-0800"):
        t = _dt(ms, form)
        z = t.strftime("%z")
        return t.strftime("%Y-%m-%dT%H:%M:%S") + z[:3] + ":" + z[3:]
    if form == "unix":
        return "%d" % (ms // 1000)
    return _dt(ms).strftime("%Y-%m-%dT%H:%M:%SZ")


# --------------------------------------------------------------------------------------
# listing model
# --------------------------------------------------------------------------------------

def file_ms(name):
    m = RE_DRFFILE.match(name)
    if m:
        return int(m.group("secs")) * 1000 + int(m.group("frac")), "drf"
    m = RE_DMDFILE.match(name)
    if m:
        return int(m.group("secs")) * 1000, "dmd"
    return None, None


class TreeModel:
    def __init__(self, entries):
        self.dirs = set([""])
        self.files = set()
        for e in entries:
            p = e["p"]
            if e["t"] == "d":
                self.dirs.add(p)
            else:
                self.files.add(p)
            d = os.path.dirname(p)
            while d:
                self.dirs.add(d)
                d = os.path.dirname(d)

    def children(self, d):
        pre = d + "/" if d else ""
        fs = [f[len(pre):] for f in self.files if f.startswith(pre) and "/" not in f[len(pre):]]
        ds = [x[len(pre):] for x in self.dirs if x and x.startswith(pre) and "/" not in x[len(pre):] and x != d]
        return ds, fs

    def props_of(self, d):
        _, fs = self.children(d)
        return [f for f in fs if f in ("drf_properties.h5", "dmd_properties.h5", "metadata.h5")]

    def reachable(self, start, recursive):
        """directories the walk visits, top-down"""
        out = []
        stack = [start]
        while stack:
            d = stack.pop()
            out.append(d)
            if not recursive:
                break
            ds, _ = self.children(d)
            is_ch = bool(self.props_of(d))
            for c in ds:
                if is_ch and RE_SUBDIR.match(c):
                    continue
                stack.append((d + "/" + c) if d else c)
        return out

    def channel_files(self, d, flags):
        """matching data files of channel d: list of (ms, relpath, kind); and whether it yields metadata"""
        props = self.props_of(d)
        ydrf = any(p in DRFPROPS for p in props) and flags["include_drf"]
        ydmd = any(p in DMDPROPS for p in props) and flags["include_dmd"]
        out = []
        if not (ydrf or ydmd):
            return out, False
        ds, _ = self.children(d)
        for sd in ds:
            if not RE_SUBDIR.match(sd):
                continue
            _, fs = self.children((d + "/" + sd) if d else sd)
            for f in fs:
                ms, kind = file_ms(f)
                if ms is None:
                    continue
                if (kind == "drf" and ydrf) or (kind == "dmd" and ydmd):
                    out.append((ms, ((d + "/") if d else "") + sd + "/" + f, kind))
        return sorted(out), ydmd

    def expected(self, start_dir, recursive, flags, wstart, wend):
        """(must, may): sets of relpaths the listing must / may additionally yield"""
        must, may = set(), set()
        ip1 = flags["include_drf_properties"] if flags["include_drf_properties"] is not None else flags["include_drf"]
        ip2 = flags["include_dmd_properties"] if flags["include_dmd_properties"] is not None else flags["include_dmd"]
        for d in self.reachable(start_dir, recursive):
            props = self.props_of(d)
            if not props:
                continue
            for p in props:
                if (p == "drf_properties.h5" and ip1) or (p == "dmd_properties.h5" and ip2) or (p == "metadata.h5" and (ip1 or ip2)):
                    must.add(((d + "/") if d else "") + p)
            files, ydmd = self.channel_files(d, flags)
            inwin = [(ms, p, k) for ms, p, k in files if (wstart is None or ms >= wstart) and (wend is None or ms <= wend)]
            must.update(p for _, p, _ in inwin)
            if ydmd and wstart is not None:
                before = [(ms, p, k) for ms, p, k in files if ms < wstart]
                if before:
                    tmax = before[-1][0]
                    cands = [x for x in before if x[0] == tmax]
                    exact = any(ms == wstart for ms, _, _ in files)
                    legacy = "metadata.h5" in props
                    for ms, p, k in cands:
                        # the latest file before start; optional when a file sits exactly on start (the
                        # statement does not settle it) and for RF-named files of a legacy both-kinds directory
                        if exact or len(cands) > 1 or (legacy and k == "drf") or k == "drf":
                            may.add(p)
                        else:
                            must.add(p)
        return must, may


# --------------------------------------------------------------------------------------
# generation
# --------------------------------------------------------------------------------------

NEAR_MISS = ["tmp.rf@{s}.{f}.h5", "rf@{s}.{f}.hdf5", "rf@{s}.{f2}.h5", "rf{s}.{f}.h5", "notes.txt", "tmp.md@{s}.h5",
             "md@{s}.h5.bak", "rf@{s}.{f}.h5~"]


def gen_tree(rng, big=False, base=None):
    base = BASE if base is None else base
    entries = []
    chans = []
    names = ["ch0", "ch1", "grp/chA", "grp/chB", "deep/er/ch", "ch0/metadata", "ch1/metadata", "legacy", "plain", "ch10",
             "rx north"]
    for name in rng.sample(names, rng.randrange(2, 6 if not big else 8)):
        kind = rng.choice(["drf", "drf", "dmd", "legacy", "none", "both"])
        if name.endswith("/metadata"):
            kind = "dmd"
        if name == "plain":
            kind = "none"
        entries.append({"p": name, "t": "d"})
        if kind == "drf":
            entries.append({"p": name + "/drf_properties.h5", "t": "f"})
        elif kind == "dmd":
            entries.append({"p": name + "/dmd_properties.h5", "t": "f"})
        elif kind == "legacy":
            entries.append({"p": name + "/metadata.h5", "t": "f"})
        elif kind == "both":
            entries.append({"p": name + "/drf_properties.h5", "t": "f"})
            entries.append({"p": name + "/dmd_properties.h5", "t": "f"})
        chans.append((name, kind))
        nsub = rng.randrange(0, 5)
        t = max(0, base + rng.choice([0, 0, 100, -100]))
        for s in range(nsub):
            sub = t // 100 * 100
            sdname = _sd(sub)
            if rng.random() < 0.1:
                sdname = sdname.replace("T", "t") if rng.random() < 0.5 else sdname + "x"
            sdp = name + "/" + sdname
            entries.append({"p": sdp, "t": "d"})
            nf = rng.choice([0, 0, 1, 2, 3, 5])
            for _ in range(nf):
                ms = (sub + rng.randrange(0, 100)) * 1000 + rng.choice([0, 0, 250, 500, 999])
                if kind in ("dmd",) or (kind in ("legacy", "both") and rng.random() < 0.5):
                    fn = "%s@%d.h5" % (rng.choice(["md", "metadata", "tmpsensor"]), ms // 1000)
                else:
                    fn = "rf@%d.%03d.h5" % (ms // 1000, ms % 1000)
                entries.append({"p": sdp + "/" + fn, "t": "f"})
            if rng.random() < 0.4:
                ms = sub * 1000 + rng.randrange(0, 100000)
                tm = rng.choice(NEAR_MISS)
                entries.append({"p": sdp + "/" + tm.format(s=ms // 1000, f="%03d" % (ms % 1000), f2="%02d" % (ms % 100)), "t": "f"})
            if rng.random() < 0.1:
                entries.append({"p": sdp + "/" + _sd(sub) + "/rf@%d.000.h5" % sub, "t": "f"})
            t += rng.choice([100, 100, 200, 700])
        if rng.random() < 0.3:
            entries.append({"p": name + "/rf@%d.000.h5" % base, "t": "f"})  # data file directly in the channel dir
        if rng.random() < 0.2:
            entries.append({"p": name + "/tmp.drf_properties.h5", "t": "f"})
    # de-duplicate
    seen, out = set(), []
    for e in entries:
        if e["p"] not in seen:
            seen.add(e["p"])
            out.append(e)
    return out


def _times(entries):
    ts = set()
    for e in entries:
        if e["t"] == "f":
            ms, _ = file_ms(os.path.basename(e["p"]))
            if ms is not None:
                ts.add(ms)
        else:
            b = os.path.basename(e["p"])
            if RE_SUBDIR.match(b):
                ts.add(M.parse_subdir(b) * 1000)
    return sorted(ts)


def gen_windows(rng, entries, n):
    ts = _times(entries) or [BASE * 1000]
    cands = [None, ts[0] - 5000, ts[-1] + 5000] + ts + [t + 1 for t in ts[:3]] + [t - 1 for t in ts[:3]] + \
            [(ts[i] + ts[i + 1]) // 2 for i in range(len(ts) - 1)][:4]
    out = [(None, None)]
    if ts[0] == 0:
        out += [(None, 0), (0, 0), (ts[0] - 5000, 0)][: rng.randrange(1, 4)]
    for _ in range(n):
        a, b = rng.choice(cands), rng.choice(cands)
        if a is not None and b is not None and b < a:
            a, b = b, a
        out.append((a, b))
    return out


def gen_plan(prop, tier, rng, i):
    if prop == "C18":
        return _gen_c18(rng, tier, i)
    # (one tree in twelve starts at the Unix epoch itself: file and window times of exactly 0)
    entries = gen_tree(rng, big=tier == "thorough", base=0 if i % 12 == 7 else None)
    wins = gen_windows(rng, entries, 6 if tier == "quick" else 20)
    queries = []
    dirs = [""] + sorted(set(e["p"] for e in entries if e["t"] == "d" and not RE_SUBDIR.match(os.path.basename(e["p"]))))
    def frac(x):
        # window bounds need not be whole milliseconds
        if x is None or rng.random() < 0.7:
            return x
        return x + rng.choice([0.5, -0.5, 0.999, -0.001, 0.001])

    for (a, b) in wins:
        a, b = frac(a), frac(b)
        if a is not None and b is not None and b < a:
            a, b = b, a
        for _ in range(2):
            tri = lambda: rng.choice([True, False, None])  # noqa
            queries.append({"tzform": rng.choice(["utc", "utc", "naive", "+0530", "-0800"]),
                            "dir": rng.choice(dirs[:1] * 3 + dirs), "recursive": rng.random() < 0.8,
                            "reverse": rng.random() < 0.5, "start": a, "end": b,
                            "flags": {"include_drf": rng.random() < 0.75, "include_dmd": rng.random() < 0.75,
                                      "include_drf_properties": tri(), "include_dmd_properties": tri()}})
    plan = {"engine": "lssim", "tree": entries, "queries": queries, "readdir_seed": rng.randrange(2**32), "mutations": [],
            "root_ts_name": rng.random() < 0.1}
    if i % 2 == 1:
        sds = [e["p"] for e in entries if e["t"] == "d" and RE_SUBDIR.match(os.path.basename(e["p"]))]
        for sd in rng.sample(sds, min(len(sds), rng.randrange(1, 4))):
            plan["mutations"].append({"target": sd, "what": rng.choice(["vanish", "empty", "add"])})
    return plan


def shrink_candidates(plan):
    if plan.get("queries") and len(plan["queries"]) > 1:
        for q in plan["queries"]:
            p = copy.deepcopy(plan)
            p["queries"] = [q]
            yield p
    if plan.get("mutations"):
        for i in range(len(plan["mutations"])):
            p = copy.deepcopy(plan)
            del p["mutations"][i]
            yield p
    tr = plan.get("tree") or []
    n = len(tr)
    if n > 3:
        for part in (tr[: n // 2], tr[n // 2:]):
            p = copy.deepcopy(plan)
            p["tree"] = part
            yield p
    for i in range(n):
        p = copy.deepcopy(plan)
        del p["tree"][i]
        yield p


def build_tree(root, entries, content=False):
    for e in entries:
        p = os.path.join(root, e["p"])
        if e["t"] == "d":
            os.makedirs(p, exist_ok=True)
        else:
            os.makedirs(os.path.dirname(p), exist_ok=True)
            with open(p, "wb") as f:
                if content:
                    f.write(("content of %s\n" % e["p"]).encode() * 3)


# --------------------------------------------------------------------------------------
# C14
# --------------------------------------------------------------------------------------

def _check_order(res, yielded, reverse, root, q):
    per = {}
    for p in yielded:
        b = os.path.basename(p)
        ms, _ = file_ms(b)
        if ms is None:
            continue
        ch = os.path.dirname(os.path.dirname(p))
        per.setdefault(ch, []).append(ms)
    for ch, seq in per.items():
        ok = all(seq[i] <= seq[i + 1] for i in range(len(seq) - 1)) if not reverse else \
            all(seq[i] >= seq[i + 1] for i in range(len(seq) - 1))
        if not ok:
            res.violate("C14", "order", "files of channel %s not in %s time order: %s (query %s)" % (
                os.path.relpath(ch, root), "descending" if reverse else "ascending", seq[:8], q), reverse=reverse)
            return


def _run_c14(plan, res, sc):
    import digital_rf

    # (an experiment directory may itself be named by its start time: 2014-03-09T12-00-00/ch0/...)
    root = os.path.join(sc, "2014-03-09T12-00-00" if plan.get("root_ts_name") else "tree")
    build_tree(root, plan["tree"])
    model = TreeModel(plan["tree"])
    seams.install(root, plan.get("readdir_seed", 1))
    try:
        static_queries = plan["queries"] if not plan["mutations"] else plan["queries"][:4]
        for qi, q in enumerate(static_queries):
            res.stat("listings")
            kw = dict(recursive=q["recursive"], reverse=q["reverse"], starttime=_dt(q["start"], q.get("tzform", "utc")),
                      endtime=_dt(q["end"], q.get("tzform", "utc")), **q["flags"])
            start_dir = os.path.join(root, q["dir"]) if q["dir"] else root
            if not plan["mutations"]:
                try:
                    got = digital_rf.list_drf.lsdrf(start_dir, **kw)
                except Exception as e:  # noqa
                    res.violate("C14", "listing_raises", "lsdrf(%s) raised %s: %s" % (q, type(e).__name__, str(e)[:200]),
                                exc=type(e).__name__, dmd_start=bool(q["flags"]["include_dmd"] and q["start"] is not None))
                    continue
                rel = [os.path.relpath(p, root) for p in got]
                res.trace.add(qi, len(rel))
                must, may = model.expected(q["dir"], q["recursive"], q["flags"], q["start"], q["end"])
                if len(rel) != len(set(rel)):
                    dup = sorted(set(r for r in rel if rel.count(r) > 1))
                    res.violate("C14", "listed_twice", "%s listed more than once (query %s)" % (dup[:3], q))
                s = set(rel)
                if not (must <= s and s <= (must | may)):
                    res.violate("C14", "set_mismatch", "query %s: missing %s, unexpected %s" % (
                        q, sorted(must - s)[:4], sorted(s - must - may)[:4]),
                        reverse=q["reverse"], dmd_start=bool(q["flags"]["include_dmd"] and q["start"] is not None))
                _check_order(res, got, q["reverse"], root, q)
                # reversing changes only the order
                kw2 = dict(kw, reverse=not q["reverse"])
                try:
                    other = digital_rf.list_drf.lsdrf(start_dir, **kw2)
                    if set(other) != set(got):
                        diff = sorted(os.path.relpath(p, root) for p in set(other) ^ set(got))
                        res.violate("C14", "reverse_changes_set", "reverse=%s and reverse=%s differ by %s (query %s)" % (
                            q["reverse"], not q["reverse"], diff[:4], q),
                            dmd_start=bool(q["flags"]["include_dmd"] and q["start"] is not None))
                    res.probe("reverse_compared")
                except Exception:  # noqa  (reported by the query with that flag itself)
                    pass
            else:
                _mutated_listing(plan, res, root, model, q, qi, kw, start_dir)
                # rebuild for the next query
                shutil.rmtree(root, ignore_errors=True)
                build_tree(root, plan["tree"])
        res.stats["readdir_permutations"] = seams.permutations_done()
        res.faults["readdir_permutation"] = seams.permutations_done()
    finally:
        seams.uninstall()
    nchan = len([e for e in plan["tree"] if os.path.basename(e["p"]) in ("drf_properties.h5", "dmd_properties.h5", "metadata.h5")])
    res.nontrivial = nchan >= 2
    if any(not model.children(e["p"])[1] and not model.children(e["p"])[0] for e in plan["tree"]
           if e["t"] == "d" and RE_SUBDIR.match(os.path.basename(e["p"]))):
        res.probe("empty_subdirectory")


def _mutated_listing(plan, res, root, model, q, qi, kw, start_dir):
    """advance ilsdrf item by item; the readdir hook mutates subdirectories right before they are listed"""
    import digital_rf

    targets = {os.path.join(root, m["target"]): m["what"] for m in plan["mutations"]}
    gone, added = set(), set()

    def hook(kind, path):
        what = targets.pop(path, None)
        if what is None:
            return
        res.fault("subdir_" + what)
        if what == "vanish":
            for dp, _, fns in os.walk(path):
                for fn in fns:
                    gone.add(os.path.join(dp, fn))
            shutil.rmtree(path, ignore_errors=True)
        elif what == "empty":
            for fn in seams._real_listdir(path):
                p = os.path.join(path, fn)
                if os.path.isfile(p):
                    gone.add(p)
                    os.remove(p)
        else:
            b = os.path.basename(path)
            sec = M.parse_subdir(b) + 7
            p = os.path.join(path, "rf@%d.000.h5" % sec)
            if not os.path.exists(p):
                open(p, "w").close()
                added.add(p)

    seams.set_hook(hook)
    yielded = []
    try:
        it = digital_rf.list_drf.ilsdrf(start_dir, **kw)
        while True:
            try:
                yielded.append(next(it))
            except StopIteration:
                break
    except Exception as e:  # noqa
        res.violate("C14", "listing_raises_under_mutation", "ilsdrf raised %s: %s while subdirectories vanish (query %s)" % (
            type(e).__name__, str(e)[:160], q), exc=type(e).__name__,
            dmd_start=bool(q["flags"]["include_dmd"] and q["start"] is not None))
        return
    finally:
        seams.set_hook(None)
    res.trace.add(qi, "mut", len(yielded))
    must, may = model.expected(q["dir"], q["recursive"], q["flags"], q["start"], q["end"])
    rel = [os.path.relpath(p, root) for p in yielded]
    gone_rel = set(os.path.relpath(p, root) for p in gone)
    added_rel = set(os.path.relpath(p, root) for p in added)
    s = set(rel)
    # files that existed throughout must be listed once; nothing outside the model (plus added files)
    # (the forward-fill extra - a file before the start - depends on which tree state the listing saw)
    def _inwin(m):
        ms, _ = file_ms(os.path.basename(m))
        return ms is None or q["start"] is None or ms >= q["start"]

    stable_must = set(m for m in must if m not in gone_rel and _inwin(m))
    if not stable_must <= s:
        # a vanished file can move the forward-fill choice; tolerate only differences among `may`-type files
        missing = stable_must - s
        res.violate("C14", "set_mismatch_under_mutation", "files that existed throughout are missing: %s (query %s)" % (
            sorted(missing)[:4], q), dmd_start=bool(q["flags"]["include_dmd"] and q["start"] is not None))
    extra = s - must - may - added_rel
    # with files gone, an earlier file may legitimately become the forward-fill extra of a metadata channel
    if extra:
        flags = q["flags"]
        bad = []
        for x in extra:
            ms, kind = file_ms(os.path.basename(x))
            if ms is None or not (flags["include_dmd"] and q["start"] is not None and ms < q["start"]):
                bad.append(x)
        if bad:
            res.violate("C14", "unexpected_under_mutation", "listed %s which no listing of any intermediate tree contains (query %s)" % (
                sorted(bad)[:4], q))
    if len(rel) != len(s):
        res.violate("C14", "listed_twice", "path listed twice under mutation (query %s)" % (q,))


# --------------------------------------------------------------------------------------
# C18
# --------------------------------------------------------------------------------------

def _gen_c18(rng, tier, i):
    entries = gen_tree(rng)
    # real recordings
    recs = []
    for c in range(rng.randrange(1, 3)):
        cfg = M.gen_cfg(rng, {"maxcap": 60, "p_filters": 0.2})
        t = 0
        while cfg.typical_capacity() > 200 and t < 30:
            cfg = M.gen_cfg(rng, {"maxcap": 60})
            t += 1
        cfg.channel = "real%d" % c if c == 0 or rng.random() < 0.5 else "real00"  # (a name that starts with another name)
        ops = M.gen_writes(rng, cfg, rng.randrange(1, 5), maxlen=max(2, 3 * cfg.typical_capacity()))
        ops = [o for o in ops if sum(len(cfg.files_of(a, a + n - 1)) for a, n in RN.op_samples(cfg, o)) <= 6][:4]
        if ops:
            recs.append({"cfg": cfg.to_json(), "ops": ops, "md": rng.random() < 0.5})
    cmd = ["cp", "mv", "ln"][i % 3]
    tri = lambda: rng.choice([True, False, None])  # noqa
    flags = {"include_drf": rng.random() < 0.8, "include_dmd": rng.random() < 0.8,
             "include_drf_properties": tri(), "include_dmd_properties": tri()}
    chs = []
    only_ = rng.random() < 0.2
    if rng.random() < 0.6:
        top = sorted(set(e["p"].split("/")[0] for e in entries)) + [r["cfg"]["channel"] for r in recs]
        nested = sorted(set(os.path.dirname(e["p"]) for e in entries if e["p"].count("/") >= 2 and e["t"] == "f"
                            and not RE_SUBDIR.match(os.path.basename(os.path.dirname(e["p"])))))
        chs = rng.sample(top + nested[:3], min(len(top), rng.randrange(1, 3)))
        pairs = [(a, b) for a in top for b in top if b != a and b.startswith(a) and not b.startswith(a + "/")]
        if pairs and rng.random() < 0.5:
            chs = list(rng.choice(pairs))
            rng.shuffle(chs)
        # channel arguments must not contain one another (the transfers would overlap)
        if not only_:
            chs = [c for c in chs if not any(o != c and (c + "/").startswith(o + "/") for o in chs)]
        elif nested and rng.random() < 0.5:
            # --only: a channel and one nested below it are two disjoint, non-recursive transfers
            n_ = rng.choice(nested)
            par_ = n_.split("/")[0]
            chs = [par_, n_] if par_ in top else chs
        # the channel option is free text: trailing slash (tab completion), ./ prefix, doubled slash, comma lists
        deco = []
        for c in chs:
            r = rng.random()
            if r < 0.2:
                c = c + "/"
            elif r < 0.35:
                c = "./" + c
            elif r < 0.45 and "/" in c:
                c = c.replace("/", "//", 1)
            deco.append(c)
        chs = deco
        if len(chs) == 2 and rng.random() < 0.3:
            chs = [",".join(chs)]
    plan = {"engine": "lssim", "tree": entries, "recs": recs, "cmd": cmd, "flags": flags, "chs": chs,
            "src_alias": rng.random() < 0.25, "dest_alias": rng.random() < 0.2, "pre_dest": rng.randrange(2) if rng.random() < 0.25 else None, "pre_dest_kind": rng.choice(["short", "same_size"]),
            "timeform": rng.choice(["z", "z", "naive", "+0530", "-0800", "unix"]), "end_relative": rng.random() < 0.2,
            "only": only_, "reverse": rng.random() < 0.3, "symbolic": cmd == "ln" and rng.random() < 0.5,
            "start": None, "end": None, "readdir_seed": rng.randrange(2**32)}
    if rng.random() < 0.5:
        ts = _times(entries)
        for r in recs:
            c = M.Cfg(**r["cfg"])
            ts.append(c.file_T(c.start))
            ts.append(c.file_T(c.start) + 2 * c.file_ms)
        if ts:
            a = rng.choice(ts) // 1000 * 1000 + rng.choice([0, 0, 1000, -1000])
            b = a + rng.choice([0, 1000, 100000, 10**8])
            if rng.random() < 0.8:
                plan["start"] = a
            if rng.random() < 0.7:
                plan["end"] = b
    return plan


def _args_for(plan, src, dest):
    a = [plan["cmd"], src, dest]
    for c in plan["chs"]:
        a += ["-c", c]
    if plan["only"]:
        a.append("--only")
    if plan["reverse"]:
        a.append("-R")
    tf = plan.get("timeform", "z")
    if plan["start"] is not None:
        a += ["-s", _iso(plan["start"], tf)]
    if plan["end"] is not None:
        if plan.get("end_relative") and plan["start"] is not None and plan["end"] >= plan["start"]:
            a += ["-e", "+%d" % ((plan["end"] - plan["start"]) // 1000)]
        else:
            a += ["-e", _iso(plan["end"], tf)]
    f = plan["flags"]
    if not f["include_drf"]:
        a.append("--nodrf")
    if not f["include_dmd"]:
        a.append("--nodmd")
    if f["include_drf_properties"] is True:
        a.append("--drfprops")
    elif f["include_drf_properties"] is False:
        a.append("--nodrfprops")
    if f["include_dmd_properties"] is True:
        a.append("--dmdprops")
    elif f["include_dmd_properties"] is False:
        a.append("--nodmdprops")
    if plan.get("symbolic"):
        a.append("--symbolic")
    return a


def _run_c18(plan, res, sc):
    import digital_rf
    from digital_rf import drf_command

    src = os.path.join(sc, "tree", "src")
    dest = os.path.join(sc, "tree", "dest")
    dest_arg = dest
    if plan.get("dest_alias"):
        # the destination is reached through a symbolic link to a directory at another depth
        # (/data/current -> /mnt/disk2/runs/run5, destination /data/current/out)
        real_parent = os.path.join(sc, "tree", "phys", "disk2", "runs", "run5")
        os.makedirs(real_parent)
        os.makedirs(os.path.join(sc, "tree", "links"), exist_ok=True)
        os.symlink(real_parent, os.path.join(sc, "tree", "links", "current"))
        dest = os.path.join(real_parent, "out")
        dest_arg = os.path.join(sc, "tree", "links", "current", "out")
    build_tree(src, plan["tree"], content=True)
    # real recordings (in a node: process isolation for the C library)
    for r in plan["recs"]:
        cfg = M.Cfg(**r["cfg"])
        os.makedirs(os.path.join(src, cfg.channel), exist_ok=True)

        def child(report, cfg=cfg, r=r):
            RN.run_session(report, src, cfg, r["ops"])
            if r["md"]:
                mdir = os.path.join(src, cfg.channel, "metadata")
                os.makedirs(mdir, exist_ok=True)
                w = digital_rf.DigitalMetadataWriter(mdir, 10, 1, cfg.n, cfg.d, "metadata")
                w.write(cfg.start, {"a": 1})
                w.write(cfg.start + 3 * max(1, cfg.n // cfg.d), {"a": 2})

        _, _, node = K.run_inline(os.path.join(sc, "tree"), child)
        if node.died_of_signal():
            raise K.HarnessError("recorder died while preparing the source tree")
    pristine = os.path.join(sc, "pristine")
    shutil.copytree(src, pristine, symlinks=True)
    fp_src0 = K.fingerprint(src)
    # expectation from the equivalent listing (on the pristine copy)
    kw = dict(recursive=not plan["only"], reverse=plan["reverse"], starttime=_dt(plan["start"]), endtime=_dt(plan["end"]),
              **plan["flags"])
    chlist = [b.strip() for a_ in plan["chs"] for b in a_.strip().split(",")]
    pairs = [(c, c) for c in chlist] or [("", "")]
    expected = {}
    for c, _ in pairs:
        sdir = os.path.join(pristine, c) if c else pristine
        if not os.path.isdir(sdir):
            continue
        for p in digital_rf.list_drf.lsdrf(sdir, **kw):
            expected[os.path.relpath(p, pristine)] = p
    seams.install(os.path.join(sc, "tree"), plan.get("readdir_seed", 1))
    try:
        src_arg = src
        if plan.get("src_alias"):
            # the source directory is given through a symbolic link (e.g. /data -> /mnt/disk1)
            os.makedirs(os.path.join(sc, "tree", "links"), exist_ok=True)
            src_arg = os.path.join(sc, "tree", "links", "alias")
            if not os.path.lexists(src_arg):
                os.symlink(src, src_arg)
        args = _args_for(plan, src_arg, dest_arg)
        res.trace.add(" ".join(a.replace(sc, "") for a in args))
        planted = []
        if plan.get("pre_dest") is not None:
            # the destination is not empty: an earlier transfer left (other) files under some of the names
            import zlib

            for rel in sorted(expected):
                if (zlib.crc32(rel.encode()) + plan["pre_dest"]) % 2 == 0:
                    dp_ = os.path.join(dest, rel)
                    os.makedirs(os.path.dirname(dp_), exist_ok=True)
                    with open(dp_, "wb") as f_:
                        if plan.get("pre_dest_kind") == "same_size":
                            # same size as the source file, other bytes, newer (the usual look of a data file of the
                            # same channel configuration recorded at another time)
                            raw = bytearray(open(expected[rel], "rb").read())
                            for j_ in range(len(raw)):
                                raw[j_] ^= 0x5A
                            f_.write(bytes(raw) if raw else b"")
                        else:
                            f_.write(b"left over from an earlier transfer\n")
                    planted.append(rel)
            if planted:
                res.fault("destination_file_already_exists")
        try:
            drf_command.main(args)
        except SystemExit as e:
            raise K.HarnessError("drf %s exited: %s" % (args, e))
        except Exception as e:  # noqa
            if any(not os.path.isdir(os.path.join(src, c)) for c in chlist):
                res.probe("missing_channel_argument")
                return
            if planted and plan["cmd"] == "ln" and isinstance(e, FileExistsError):
                # ln does not replace what is there; reporting the failure is a legitimate outcome (nothing may
                # have been lost: ln never touches the source)
                res.probe("ln_refuses_existing_destination")
                if K.fingerprint(src) != fp_src0:
                    res.violate("C18", "source_changed", "source changed by a failed ln", cmd="ln")
                return
            res.violate("C18", "command_raises", "drf %s raised %s: %s" % (" ".join(args[:1] + args[3:]), type(e).__name__, str(e)[:200]),
                        cmd=plan["cmd"])
            return
    finally:
        seams.uninstall()
    got = {}
    if os.path.isdir(dest):
        for dp, dns, fns in os.walk(dest):
            for fn in fns:
                p = os.path.join(dp, fn)
                got[os.path.relpath(p, dest)] = p
    if set(got) != set(expected):
        res.violate("C18", "transferred_set", "drf %s: destination has %d files, listing selects %d; missing %s extra %s" % (
            " ".join(args[:1] + args[3:]), len(got), len(expected), sorted(set(expected) - set(got))[:4],
            sorted(set(got) - set(expected))[:4]), cmd=plan["cmd"])
    for rel in sorted(set(got) & set(expected)):
        sp = os.path.join(src, rel)
        if plan["cmd"] in ("cp", "mv"):
            if K.file_sha(got[rel]) != K.file_sha(expected[rel]):
                res.violate("C18", "content_differs", "%s differs between source and destination" % rel, cmd=plan["cmd"])
        elif plan.get("symbolic"):
            if not os.path.islink(got[rel]) or os.path.realpath(got[rel]) != os.path.realpath(sp):
                res.violate("C18", "link_wrong", "%s is not a symbolic link to the source file" % rel, cmd="ln")
        else:
            if os.stat(got[rel]).st_ino != os.stat(sp).st_ino:
                res.violate("C18", "link_wrong", "%s is not a hard link to the source file" % rel, cmd="ln")
    fp_src1 = K.fingerprint(src)
    if plan["cmd"] in ("cp", "ln"):
        if fp_src1 != fp_src0:
            res.violate("C18", "source_changed", "source changed: %s" % K.fp_diff(fp_src0, fp_src1), cmd=plan["cmd"])
    else:
        want = {k: v for k, v in fp_src0.items() if not (v[0] == "f" and k in expected)}
        have_files = {k: v for k, v in fp_src1.items() if v[0] != "d"}
        want_files = {k: v for k, v in want.items() if v[0] != "d"}
        if have_files != want_files:
            res.violate("C18", "mv_source_wrong", "after mv the source differs from original minus transferred: %s" % K.fp_diff(
                want_files, have_files), cmd="mv")
    # reader on the destination == reader on the (pristine) source over the transferred RF files
    for r in plan["recs"]:
        cfg = M.Cfg(**r["cfg"])
        rels = [x for x in got if x.startswith(cfg.channel + "/") and M.RE_RFFILE.match(os.path.basename(x))
                and "/metadata/" not in x]
        if not rels or (cfg.channel + "/drf_properties.h5") not in got:
            continue
        try:
            # views holding only this (real) channel: the noise channels have no HDF5 content
            vd, vs = os.path.join(sc, "view_d_" + cfg.channel), os.path.join(sc, "view_s_" + cfg.channel)
            for v, top in ((vd, dest), (vs, pristine)):
                os.makedirs(v, exist_ok=True)
                if not os.path.exists(os.path.join(v, cfg.channel)):
                    os.symlink(os.path.join(top, cfg.channel), os.path.join(v, cfg.channel))
            rd_d = digital_rf.DigitalRFReader(vd)
            rd_s = digital_rf.DigitalRFReader(vs)
            for rel in rels:
                T = int(M.RE_RFFILE.match(os.path.basename(rel)).group(2)) * 1000 + int(M.RE_RFFILE.match(os.path.basename(rel)).group(3))
                lo, hi = cfg.window(T)
                a = [(int(k), M.canon_bits(v)) for k, v in rd_d.read(lo, hi, cfg.channel).items()]
                b = [(int(k), M.canon_bits(v)) for k, v in rd_s.read(lo, hi, cfg.channel).items()]
                if len(a) != len(b) or any(x[0] != y[0] or x[1].shape != y[1].shape or not (x[1] == y[1]).all() for x, y in zip(a, b)):
                    res.violate("C18", "reader_differs", "reader on destination and source differ over file %s" % rel, cmd=plan["cmd"])
                    break
            res.probe("reader_compared")
        except Exception as e:  # noqa
            res.violate("C18", "dest_reader_fails", "reader on the destination raised %s: %s" % (type(e).__name__, str(e)[:160]),
                        cmd=plan["cmd"])
    res.stats["files_transferred"] = len(got)
    res.nontrivial = len(got) >= 2
    res.probe("cmd_" + plan["cmd"] + ("_symbolic" if plan.get("symbolic") else ""))


def run_plan(prop, plan):
    res = K.RunResult()
    _counter[0] += 1
    sc = K.new_scratch("ls-%d-%d" % (os.getpid(), _counter[0]))
    try:
        if prop == "C14":
            _run_c14(plan, res, sc)
        else:
            _run_c18(plan, res, sc)
        return res
    finally:
        seams.uninstall()
        if not os.environ.get("VSIM_KEEP"):
            shutil.rmtree(sc, ignore_errors=True)


COMPONENTS = {
    "real": ["list_drf.ilsdrf / lsdrf", "drf_command.main -> cp / mv / ln", "shutil / os file operations", "DigitalRFReader "
             "(C18 read-back)", "C writer + metadata writer (C18 source recordings)", "tmpfs"],
    "stubbed": ["readdir order (seeded permutation) and the mutation hook between enumeration and listing of a subdirectory",
                "C14 trees are empty files with the format's names"],
}
