"""E1 rfsim - call-granularity session simulator for the RF writer / reader.

Writer sessions run in forked nodes (real C library + extension through the public Python
API, parked at every API call boundary so that the simulator can fingerprint the tree);
readers of different ages, raw inspection and regeneration run in the simulator with a
shuffled readdir order.  Serves C01 C04 C05 C06 C07 C08 C11 C19.
"""
from __future__ import annotations

import copy
import os
import random
import shutil

import numpy as np

from .. import kernel as K
from .. import model_rf as M
from .. import rfcheck as RC
from .. import rfnode as RN
from .. import rfshrink
from .. import seams

PROPS = ("C01", "C04", "C05", "C06", "C07", "C08", "C11", "C19")
_counter = [0]

CELLS = []
for _k in M.REAL_KINDS:
    for _o in "<>":
        for _c in ("real", "struct", "interleaved", "native"):
            if _c == "native" and _k[0] != "f":
                continue
            CELLS.append((_k, _o, _c))

INVALID_CLASSES = ("w_past", "wb_past", "wb_first_nonzero", "wb_b_nonincreasing", "wb_g_nonincreasing",
                   "wb_overlap", "wb_offset_past_end", "wb_len_mismatch", "wb_negative", "w_negative", "w_wrap", "wb_wrap")

MISMATCH_FIELDS = ("class", "size", "order", "subdir_s", "file_ms", "n", "d", "is_complex", "nsub", "continuous", "fraction")


# --------------------------------------------------------------------------------------
# plan generation
# --------------------------------------------------------------------------------------

def _predict(cfg, ops):
    """session model after the valid ops of `ops` (generator side)"""
    m = M.RFModel(cfg)
    s = M.SessionModel(cfg, m)
    for op in ops:
        if not op.get("invalid"):
            RN.apply_op(s, op)
    return m, s


def _gen_invalid(rng, cfg, sess, salt):
    """one invalid op for the current session state, or None"""
    A = sess.next_avail
    cls = rng.choice(INVALID_CLASSES)
    cap = cfg.typical_capacity()
    ln = rng.choice([1, 2, 3, min(cap, 50) + 1, rng.randrange(1, 40)])
    if cls == "w_past":
        if A == 0:
            return None
        rel = rng.choice([A - 1, 0, max(0, A - ln), max(0, A - cap), rng.randrange(0, A)])
        return {"op": "w", "rel": rel, "_rel": rel, "len": ln, "salt": salt, "invalid": cls}
    if cls == "wb_past":
        if A == 0:
            return None
        g0 = rng.choice([A - 1, 0, rng.randrange(0, A)])
        return {"op": "wb", "g": [g0, g0 + ln + 3], "b": [0, ln], "len": 2 * ln, "salt": salt, "invalid": cls}
    if cls == "w_negative":
        rel = -rng.choice([1, 5, cap, 2**31, 2**63])
        return {"op": "w", "rel": rel, "_rel": rel, "len": ln, "salt": salt, "invalid": cls}
    if cls in ("w_wrap", "wb_wrap"):
        # start + index does not fit in 64 bits: in the library's arithmetic the data would land at / before the
        # recording start, i.e. at or before indices already written
        if cfg.start < 2:
            return None
        k = rng.choice([1, 5, min(cfg.start, cap), cfg.start, max(1, cfg.start - A), max(1, cfg.start - A - 1)])
        k = max(1, min(k, cfg.start))
        rel = 2**64 - k
        if rng.random() < 0.25:
            rel, ln = 2**64 - cfg.start - 1, max(2, ln)  # first sample fits, the last one does not
        if rel < A:
            return None
        if cls == "w_wrap":
            return {"op": "w", "rel": rel, "_rel": rel, "len": ln, "salt": salt, "invalid": cls}
        if rng.random() < 0.5 or rel - A < 8:
            return {"op": "wb", "g": [rel], "b": [0], "len": ln, "salt": salt, "invalid": cls}
        return {"op": "wb", "g": [A + 3, rel], "b": [0, 2], "len": 2 + ln, "salt": salt, "invalid": cls}
    base = A + rng.choice([0, 0, 1, cap])
    g = [base, base + ln + rng.choice([0, 1, 5]), base + 2 * ln + 12]
    b = [0, ln, 2 * ln]
    n = 3 * ln
    if cls == "wb_first_nonzero":
        b = [1, ln + 1, 2 * ln + 1]
        n += 1
    elif cls == "wb_b_nonincreasing":
        b = rng.choice([[0, ln, ln], [0, ln, ln - 1] if ln > 1 else [0, ln, ln], [0, 0, ln]])
    elif cls == "wb_g_nonincreasing":
        g = rng.choice([[base, base + ln + 1, base + ln + 1], [base, base + ln + 1, base + ln], [base, base, base + 2 * ln + 3],
                        [base, base + 5 * cap + ln, base + ln + 2]])  # (last one: goes backwards in a later file)
    elif cls == "wb_overlap":
        v = rng.random()
        if v < 0.25:
            # exactly two blocks, the second one reaching back into the first
            L = max(ln, 2)
            ov = rng.randrange(1, L)
            g = [base, base + L - ov]
            b = [0, L]
            n = 2 * L
            return {"op": "wb", "g": g, "b": b, "len": n, "salt": salt, "invalid": cls}
        if v < 0.5:
            g = [base, base + ln - 1 if ln > 1 else base + 0, base + 2 * ln + 12]
            if ln == 1:
                b = [0, 2, 4]
                g = [base, base + 1, base + 12]
                n = 6
        else:
            # the overlapping pair comes later, after a gap at least as large as the overlap (so that only a
            # per-pair comparison - not a cumulative one - sees it); 3 or 4 blocks
            slack = rng.choice([1, 5, ln, 200])
            ov = rng.randrange(1, min(ln, slack) + 1) if ln > 1 else 1
            L = max(ln, 2)
            b = [0, L, 2 * L]
            g = [base, base + L + slack, base + L + slack + L - ov]
            n = 3 * L
            if rng.random() < 0.5:
                b.append(3 * L)
                g.append(g[-1] + L + 7)
                n = 4 * L
    elif cls == "wb_offset_past_end":
        b = [0, ln, n + rng.choice([0, 1, 7])]
        if cfg.cstyle == "interleaved" and cfg.nsub == 1 and rng.random() < 0.6:
            # I/Q handed over as one flat real array of 2N values: an offset between N and 2N is past the end of
            # the N samples all the same
            return {"op": "wb", "g": g, "b": [0, ln, n + rng.choice([1, ln, n - 1])], "len": n, "salt": salt, "invalid": cls,
                    "layout": "flat_iq"}
    elif cls == "wb_len_mismatch":
        v = rng.random()
        if v < 0.35:
            g = g[:2]
        elif v < 0.7:
            b = b[:2]
        elif v < 0.85:
            g = g[:1]     # one global index, several offsets
        else:
            b = b[:1]
    elif cls == "wb_negative":
        # signed index arrays with a negative entry (an index before the recording start / a negative offset)
        v = rng.random()
        if v < 0.4:
            g = [-rng.choice([1, 5, cap + 7, 2**40]), base + ln + 1, base + 2 * ln + 12]
        elif v < 0.7:
            g = [base, -rng.choice([1, 3, 2**33]), base + 2 * ln + 12]
        else:
            b = [0, -rng.choice([1, ln]), 2 * ln]
    return {"op": "wb", "g": g, "b": b, "len": n, "salt": salt, "invalid": cls}


def _insert_invalid(rng, cfg, ops, n_invalid):
    """interleave invalid ops; returns new op list (valid ops keep their arguments)"""
    out = []
    m = M.RFModel(cfg)
    s = M.SessionModel(cfg, m)
    slots = sorted(rng.randrange(0, len(ops) + 1) for _ in range(n_invalid))
    salt = 1000
    for i in range(len(ops) + 1):
        while slots and slots[0] == i:
            slots.pop(0)
            inv = _gen_invalid(rng, cfg, s, salt)
            salt += 1
            if inv is not None:
                out.append(inv)
        if i < len(ops):
            out.append(ops[i])
            RN.apply_op(s, ops[i])
    return out


def _edges(cfg, model):
    """interesting absolute indices: block, gap and file edges"""
    ed = set()
    for a, n, _ in model.segs:
        ed.update((a - 1, a, a + n - 1, a + n))
    for T in model.files():
        lo, hi = cfg.window(T)
        ed.update((lo - 1, lo, hi, hi + 1))
    return sorted(e for e in ed if e >= 0)


def _gen_queries(rng, cfg, model, nq):
    """read ranges / vector reads with literal arguments"""
    qs = []
    if not model.segs:
        return qs
    ed = _edges(cfg, model)
    lo, hi = ed[0], ed[-1]
    qs.append({"q": "read", "a": max(0, lo - 3), "b": hi + 3})
    for _ in range(nq):
        a = rng.choice(ed) + rng.choice([0, 0, 0, -1, 1])
        a = max(0, a)
        kind = rng.random()
        if kind < 0.25:
            b = a
        elif kind < 0.7:
            b = rng.choice(ed)
            if b < a:
                a, b = b, a
        else:
            b = a + rng.choice([1, 2, cfg.typical_capacity(), rng.randrange(1, 300)])
        if b - a > 20000:
            b = a + 20000
        q = {"q": "read", "a": a, "b": b}
        if rng.random() < 0.2:
            q["btype"] = rng.choice(["i8", "u8"])   # range given as numpy integer scalars
        r = rng.random()
        if r < 0.35:
            inner = [e for e in ed if a <= e < b]
            if inner:
                q["split"] = rng.choice(inner)
        if r > 0.6:
            q["sub"] = rng.randrange(cfg.nsub)
        qs.append(q)
        if rng.random() < 0.15 and "split" not in q:
            # get_bounds between two queries of the same reader object (it opens files of its own), the second
            # query starting in the file the first one ended in and running to that file's end
            lo_x, hi_x = cfg.window(cfg.file_T(b))
            qs.append({"q": "rbr", "a": a, "b": b, "a2": max(a, lo_x), "b2": max(b, min(hi_x, b + 20000))})
        if rng.random() < 0.5:
            L = rng.choice([1, 1, cfg.nsub, 2, b - a + 1, rng.randrange(1, 50)])
            qs.append({"q": "vec", "a": a, "n": max(1, min(L, 5000)),
                       "fn": rng.choice(["raw", "vec", "1d"]),
                       "sub": rng.choice([None, None, rng.randrange(cfg.nsub)])})
        if rng.random() < 0.2:
            qs.append({"q": "props", "k": rng.choice(ed)})
    # outside the data
    qs.append({"q": "read", "a": hi + 5, "b": hi + 50})
    if lo > 60:
        qs.append({"q": "read", "a": lo - 50, "b": lo - 2})
    qs.append({"q": "bounds"})
    return qs


def _mismatch_cfg(rng, cfg):
    """a config differing from cfg in exactly one compared attribute; (field, cfgjson) or None"""
    f = rng.choice(MISMATCH_FIELDS)
    c = cfg.to_json()
    k, size = cfg.kind[0], cfg.itemsize
    if f == "class":
        if k in "iu" and size in (4, 8):
            c["kind"] = "f%d" % size
        elif k == "f":
            c["kind"] = "i%d" % size
        else:
            return None
        if c["cstyle"] == "native":
            c["cstyle"] = "struct"
    elif f == "size":
        ns = {1: 2, 2: 4, 4: 8, 8: 4}[size]
        c["kind"] = k + str(ns)
        if k == "f" and ns not in (4, 8):
            return None
    elif f == "order":
        if size == 1 or cfg.cstyle == "native":
            return None  # byte order of a numpy complex input does not reach the file
        c["order"] = "<" if cfg.order == ">" else ">"
    elif f == "subdir_s":
        c["subdir_s"] = cfg.subdir_s * 2
    elif f == "file_ms":
        nf = cfg.file_ms * 2
        if (cfg.subdir_s * 1000) % nf != 0:
            return None
        c["file_ms"] = nf
    elif f == "n":
        c["n"] = cfg.n + 1
    elif f == "d":
        c["d"] = cfg.d + 1
    elif f == "is_complex":
        c["cstyle"] = "real" if cfg.is_complex else "struct"
    elif f == "nsub":
        c["nsub"] = cfg.nsub + 1
    elif f == "continuous":
        c["continuous"] = not cfg.continuous
    elif f == "fraction":
        # the same rate written as another fraction: numerator and denominator stored with the channel both differ
        k_ = rng.choice([2, 3, 10])
        if cfg.n * k_ >= 2**32:
            return None
        c["n"], c["d"] = cfg.n * k_, cfg.d * k_
    return f, c


def gen_plan(prop, tier, rng, i):
    thorough = tier == "thorough"
    prof = {"maxcap": 600, "max_cont_cap": 6000, "p_epoch_start": 0.03}
    cell = None
    if prop == "C07":
        cell = CELLS[i % len(CELLS)]
        prof.update(p_continuous=1.0, p_filters=0.25, maxcap=300, max_cont_cap=10**9)
    cfg = M.gen_cfg(rng, prof, cell=cell)
    t = 0
    while cfg.typical_capacity() > (3000 if prop != "C07" else 1500) and t < 30:
        if prop != "C07" and rng.random() < 0.35:
            # keep a very high rate (more than 3000 samples per file even at 1 ms, up to 2**32-1 Hz, absolute
            # indices beyond 2**63): sparse gapped files only, an un-chunked file would be huge
            cfg.continuous = False
            break
        cfg = M.gen_cfg(rng, prof, cell=cell)
        t += 1
    if prop == "C07":
        cfg.continuous = True
    cap = cfg.typical_capacity()
    maxlen = max(3, min(4000, int(3 * cap)))
    nw = rng.randrange(2, 13 if prop in ("C01", "C04", "C06") else 9)
    plan = {"engine": "rfsim", "cfg": cfg.to_json(), "readdir_seed": rng.randrange(2**32),
            "regen": prop == "C06" or rng.random() < 0.2,
            "cnode": (prop == "C05" and i % 2 == 0) or (prop == "C01" and i % 4 == 0)}
    if prop == "C06":
        # regeneration from every file of the channel: all (<= 16) files in the thorough tier, 3 in quick
        plan["regen_each"] = 16 if thorough else 3
        if i % 5 == 2:
            plan["restart_at"] = rng.randrange(4, 70)
            plan["restart_off"] = rng.choice([0.0, 0.5])
            plan["restart_nops"] = rng.choice([1, 1, 2])
    if prop == "C11" or (prop in ("C08", "C04", "C06", "C01") and i % 4 == 3):
        # (C08 / C04 / C06: a quarter of the channels are multi-session / multi-directory ones - bounds, reads,
        #  file placement and per-session attributes must hold over restarts as well)
        kp = (0.35 if thorough else 0.2) if prop == "C11" else 0.0
        plan["sessions"] = [s for s in _gen_sessions(rng, cfg, maxlen, kill_p=kp) if prop == "C11" or not s.get("mismatch")
                            or (prop == "C06" and s.get("mismatch") == "fraction")]
        if not plan["sessions"]:
            plan["sessions"] = [{"top": "t0", "uuid": "sess0", "start": cfg.start,
                                 "ops": M.gen_writes(rng, cfg, 3, maxlen=maxlen)}]
    else:
        p_blocks = 0.3
        ops = M.gen_writes(rng, cfg, nw, maxlen=maxlen, p_blocks=p_blocks)
        if prop in ("C05", "C19") or rng.random() < 0.15:
            ops = _insert_invalid(rng, cfg, ops, rng.randrange(1, 7))
        if prop == "C19" and rng.random() < 0.3:
            # zero-length write (accepted, writes nothing)
            m, s = M.RFModel(cfg), None
            j = rng.randrange(0, len(ops) + 1)
            _, s = _predict(cfg, ops[:j])
            rel = s.next_avail + rng.choice([0, 0, 3, cap])
            ops.insert(j, {"op": "w", "rel": rel, "_rel": rel, "len": 0, "salt": 5000})
        ops = _bound(cfg, ops, 16)
        plan["sessions"] = [{"top": rng.choice(["t0", "t0", "tmp.t0", "x.tmp.rf@1"]), "uuid": "sess0", "start": cfg.start,
                             "ops": ops}]
        if rng.random() < (0.5 if prop == "C07" else 0.15):
            # a throw-away writer of another element type / byte order in the same process first
            pk = rng.choice(["i2", "f4", "f8", "i4"])
            plan["sessions"][0]["prelude"] = dict(cfg.to_json(), kind=pk, order=">" if cfg.order == "<" or rng.random() < 0.7 else "<",
                                                  cstyle="real", nsub=1, continuous=True, compression=0, checksum=False,
                                                  channel="pre", uuid="prelude")
    if len(plan["sessions"]) == 1 and not cfg.tz and rng.random() < (0.3 if prop in ("C04", "C06") else 0.08):
        cap_ = cfg.typical_capacity()
        plan["sessions"][0]["companion"] = dict(cfg.to_json(), subdir_s=cfg.subdir_s * rng.choice([2, 10, 60]), nsub=1,
                                                cstyle="real", channel="comp", uuid="companion", tz=None)
        if rng.random() < 0.5:
            # ... and another file cadence (the subdirectory cadence above is an even multiple, so it still divides)
            plan["sessions"][0]["companion"]["file_ms"] = cfg.file_ms * 2
        plan["sessions"][0]["companion_step"] = rng.choice([2, cap_, 3 * cap_])
    if rng.random() < (0.15 if prop == "C11" else 0.04):
        plan["long_path"] = True
    if prop == "C19" and rng.random() < 0.15:
        plan["sessions"][0]["exit_by_exception"] = True
    # local time zone of the process that reads (readers build subdirectory names; the format's names are UTC)
    plan["reader_tz"] = rng.choice([None, None, None, "XST8", "YST-5:30"])
    if prop == "C19" and i % 6 == 5:
        # counters near the top of the 64-bit range: recording starts near index 0 (1970) at a multi-GHz rate and the
        # data resumes decades later, so that the *relative* positions the writer reports pass 2**63.  Only the
        # bookkeeping is judged in these runs (reading back across a gap of 2**63 samples is not attempted).
        n_ = rng.randrange(2300000000, 2**32)
        c2 = M.Cfg(**dict(cfg.to_json(), n=n_, d=1, continuous=False, compression=0, checksum=False,
                          file_ms=rng.choice([1, 2, 10]), start=rng.choice([0, 1, 12345, n_])))
        c2.subdir_s = rng.choice([1, 10, 3600])
        ops, pos = [], 0
        jump_at = rng.randrange(1, 4)
        for k in range(rng.randrange(3, 7)):
            gap = rng.choice([0, 0, 3, 100])
            if k == jump_at:
                # lands between 2038 and 2100 and beyond 2**63
                gap = rng.randrange(2**63, min(2**64 - 2**40, 4102444800 * n_)) - pos
            ln = rng.choice([1, 2, 7, 50])
            if rng.random() < 0.7:
                ops.append({"op": "w", "rel": pos + gap, "_rel": pos + gap, "len": ln, "salt": k + 1})
            else:
                ops.append({"op": "wb", "g": [pos + gap, pos + gap + ln + 5], "b": [0, ln], "len": 2 * ln, "salt": k + 1})
                ln = 2 * ln + 5
            pos += gap + ln
        plan = {"engine": "rfsim", "cfg": c2.to_json(), "readdir_seed": plan["readdir_seed"], "regen": False, "cnode": False,
                "counters_only": True, "queries": [],
                "sessions": [{"top": "t0", "uuid": "sess0", "start": c2.start, "ops": ops}]}
        return plan
    model = _plan_model(cfg, plan["sessions"])
    nq = {"C08": 30, "C01": 12}.get(prop, 5)
    plan["queries"] = _gen_queries(rng, cfg, model, nq)
    return plan


def _bound(cfg, ops, maxfiles):
    out, nf = [], 0
    for op in ops:
        if op.get("invalid") or op["len"] == 0:
            out.append(op)
            continue
        f = sum(len(cfg.files_of(a, a + n - 1)) for a, n in RN.op_samples(cfg, op))
        if nf + f > maxfiles and nf > 0:
            break
        out.append(op)
        nf += f
    return out


def _session_cfg(cfg, sess):
    c = M.Cfg(**(sess.get("cfg") or cfg.to_json()))
    c.start = sess["start"]
    c.uuid = sess["uuid"]
    c.channel = cfg.channel
    return c


def _plan_model(cfg, sessions):
    """channel model predicted from the plan (valid, non-colliding ops of non-refused sessions)"""
    m = M.RFModel(cfg)
    for s in sessions:
        if s.get("mismatch"):
            continue
        c = _session_cfg(cfg, s)
        sm = M.SessionModel(c, m)
        for op in s["ops"]:
            if op.get("invalid") or op.get("collide") or op.get("collide_mid"):
                continue
            RN.apply_op(sm, op)
    return m


def _gen_sessions(rng, cfg, maxlen, kill_p=0.0):
    """C11: 1-4 sessions over 1-3 top-level dirs"""
    after_kill = False
    ns = rng.randrange(2, 5)
    ntops = rng.randrange(1, 4)
    sessions = []
    m = M.RFModel(cfg)
    periods = {}  # file T -> top that recorded it
    cap = cfg.typical_capacity()
    pre = "tmp.t" if rng.random() < 0.15 else "t"   # (a top-level directory whose name contains "tmp.")
    for k in range(ns):
        top = "%s%d" % (pre, rng.randrange(ntops))
        uuid = "sess%d" % k
        if k > 0 and rng.random() < 0.3 and not after_kill:
            mm = _mismatch_cfg(rng, cfg)
            tops_used = sorted(set(s["top"] for s in sessions if not s.get("mismatch")))
            if mm and tops_used:
                sessions.append({"top": rng.choice(tops_used), "uuid": uuid, "start": cfg.start + rng.randrange(0, 1000),
                                 "ops": [{"op": "w", "rel": 0, "_rel": 0, "len": 3, "salt": 9000 + k}],
                                 "mismatch": mm[0], "cfg": mm[1]})
                continue
        # choose start: later / earlier / inside
        if not m.segs:
            start = cfg.start
        else:
            lo, hi = m.bounds_written()
            mode = rng.choice(["later", "later", "earlier", "inside"]) if not after_kill else "later"
            if mode == "later":
                T = cfg.file_T(hi) + cfg.file_ms * rng.choice([1, 1, 2, 5])
                start = cfg.first_of(T) + rng.choice([0, 0, 1, cap // 2])
            elif mode == "earlier":
                span = rng.choice([1, 2, 4]) * cap + 5
                T = cfg.file_T(lo) - cfg.file_ms * rng.choice([2, 3, 6])
                start = max(0, cfg.first_of(max(0, T)) - rng.choice([0, 1]))
            else:
                start = rng.randrange(lo, hi + 1)
        c = copy.copy(cfg)
        c = M.Cfg(**cfg.to_json())
        c.start, c.uuid = start, uuid
        raw_ops = M.gen_writes(rng, c, rng.randrange(1, 6), maxlen=min(maxlen, 2 * cap + 3), p_blocks=0.25,
                               salt0=100 * (k + 1))
        raw_ops = _bound(c, raw_ops, 6)
        floor_abs = 0
        # classify each op against already recorded periods
        ops = []
        sm = M.SessionModel(c, m)
        for op in raw_ops:
            op = dict(op)
            if op["op"] == "w" and op["rel"] is None:
                op["rel"] = op["_rel"]
            segs = RN.op_samples(c, op)
            if min(a for a, _ in segs) < max(c.start + sm.next_avail, floor_abs):
                continue  # after a collision skipped: keep forward-only
            Ts = [T for a, n in segs for T in c.files_of(a, a + n - 1)]
            first_T = Ts[0]
            hit_same = [T for T in Ts if T in periods and periods[T][0] == top]
            hit_other = [T for T in Ts if T in periods and periods[T][0] != top]
            own_open = [T for T in Ts if T in periods and periods[T] == (top, uuid)]
            hit_same = [T for T in hit_same if periods[T] != (top, uuid)]
            if hit_other:
                continue  # the format does not allow one period in two directories: not generated
            if hit_same:
                if first_T in hit_same:
                    op["collide"] = True  # refused before anything is written
                    ops.append(op)
                elif op["op"] == "w" and not own_open and rng.random() < 0.6:
                    # one contiguous write that starts in free periods and runs on into a finalized one: refused
                    # when it gets there; whether the leading part (whole files of its own) stays is left open by
                    # the statement and is read off the tree afterwards
                    a0 = segs[0][0]
                    op["collide_mid"] = True
                    op["pre_n"] = c.first_of(min(hit_same)) - a0
                    ops.append(op)
                    for T in Ts:
                        if T < min(hit_same):
                            periods[T] = (top, uuid)
                    floor_abs = a0 + op["len"]
                continue
            ops.append(op)
            RN.apply_op(sm, op)
            for T in Ts:
                periods[T] = (top, uuid)
        if not ops:
            continue
        sess = {"top": top, "uuid": uuid, "start": start, "ops": ops,
                "cfg": c.to_json() if c.compression != cfg.compression else None}
        if k < ns - 1 and rng.random() < kill_p and not any(o.get("collide") or o.get("collide_mid") for o in ops):
            # crash interplay: this recorder is killed at an FS-op boundary; what it had finalized stays
            sess["kill_at"] = rng.randrange(2, 70)
            after_kill = True
        sessions.append(sess)
    return sessions


def _consistent(plan):
    """labels of the plan's ops still agree with the model (shrinking must not turn an op labelled
    invalid into a valid one or vice versa)"""
    cfg = M.Cfg(**plan["cfg"])
    for sess in plan["sessions"]:
        if sess.get("mismatch"):
            continue
        c = _session_cfg(cfg, sess)
        sm = M.SessionModel(c, M.RFModel(c))
        for op in sess["ops"]:
            if op["op"] == "w":
                rel = op["rel"] if op["rel"] is not None else sm.next_avail
                valid = sm.classify_write(rel, op["len"])
            else:
                valid = sm.classify_blocks(op["g"], op["b"], op["len"])
            if bool(op.get("invalid")) == valid:
                return False
            if valid and not op.get("collide"):
                if op["op"] == "w" and op["rel"] is None:
                    op = dict(op, _rel=sm.next_avail)
                RN.apply_op(sm, op)
    return True


def shrink_candidates(plan):
    for p in _shrink_candidates(plan):
        if len(plan["sessions"]) > 1 or _consistent(p):
            yield p


def _shrink_candidates(plan):
    ss = plan["sessions"]
    if len(ss) > 1:
        for i in range(len(ss)):
            p = copy.deepcopy(plan)
            del p["sessions"][i]
            yield p
    for si, s in enumerate(ss):
        for ops in rfshrink.candidates_ops(s["ops"]):
            if not ops:
                continue
            p = copy.deepcopy(plan)
            p["sessions"][si]["ops"] = ops
            yield p
    if len(plan["queries"]) > 1:
        q = plan["queries"]
        for part in (q[: len(q) // 2], q[len(q) // 2:]):
            p = copy.deepcopy(plan)
            p["queries"] = part
            yield p
        for i in range(len(q)):
            p = copy.deepcopy(plan)
            p["queries"] = [q[i]]
            yield p
    if len(ss) == 1 and not ss[0].get("cfg"):
        for c in rfshrink.candidates_cfg(plan["cfg"]):
            p = copy.deepcopy(plan)
            p["cfg"] = c
            yield p
    if plan.get("regen"):
        p = copy.deepcopy(plan)
        p["regen"] = False
        yield p


# --------------------------------------------------------------------------------------
# execution
# --------------------------------------------------------------------------------------

class Ctx:
    def __init__(self, prop, res):
        self.prop, self.res = prop, res

    def emit(self, errs, where=""):
        for prop, cls, msg in errs:
            if prop == self.prop or (self.prop == "C01" and prop == "C02" and cls.startswith("final_file")):
                self.res.violate(self.prop, cls, (where + ": " if where else "") + msg)
            else:
                k = "%s:%s" % (prop, cls)
                self.res.cross[k] = self.res.cross.get(k, 0) + 1

    def v(self, prop, cls, msg, **sig):
        if prop == self.prop:
            self.res.violate(prop, cls, msg, **sig)
        else:
            k = "%s:%s" % (prop, cls)
            self.res.cross[k] = self.res.cross.get(k, 0) + 1


def _run_session(ctx, tree, cfg, sess, si, chan_model, state):
    """run one writer session in a node; evaluate call-level clauses (C05, C19, C11)"""
    res = ctx.res
    c = _session_cfg(cfg, sess)
    c.exit_by_exception = bool(sess.get("exit_by_exception"))
    top = os.path.join(tree, sess["top"])
    chdir = os.path.join(top, c.channel)
    os.makedirs(chdir, exist_ok=True)
    ops = sess["ops"]
    sm = M.SessionModel(c, chan_model)
    fp_before = [None]
    get_before = [None]
    last_get = [None]
    rejected_before = [False]
    opened = [None]
    sc = state["scratch"]

    def child(report):
        if sess.get("prelude"):
            # another channel is recorded (and closed) by the same process first: state that outlives a writer
            # object inside the library must not leak into the next one
            pc = M.Cfg(**sess["prelude"])
            ptop = os.path.join(tree, "prelude%d" % si)
            os.makedirs(os.path.join(ptop, pc.channel), exist_ok=True)
            pw = RN.open_writer(ptop, pc)
            RN.do_op(pw, pc, {"op": "w", "rel": 0, "_rel": 0, "len": 3, "salt": 9999})
            pw.close()
        before_op = None
        if sess.get("companion"):
            # a second channel with another subdirectory cadence is recorded by the same process, alternating with
            # the channel under test: where a file goes must depend on (index, rate, cadences) only
            cc = M.Cfg(**sess["companion"])
            ctop = os.path.join(tree, "companion%d" % si)
            os.makedirs(os.path.join(ctop, cc.channel), exist_ok=True)
            cw = RN.open_writer(ctop, cc)
            cpos = [0]

            def before_op(i):
                try:
                    RN.do_op(cw, cc, {"op": "w", "rel": cpos[0], "_rel": cpos[0], "len": 2, "salt": 9000 + i})
                except Exception:  # noqa
                    pass
                cpos[0] += max(2, sess["companion_step"])
            before_op(-1)
        RN.run_session(report, top, c, ops, session=si, sync=True, before_op=before_op)

    if sess.get("mismatch"):
        fp_before[0] = K.fingerprint(chdir, meta=True)
    node = K.Node(tree, child, log_path=os.path.join(sc, "node%d.log" % si))
    pending = {}
    nsteps = 0
    nfs = 0
    finalized_T = set()
    inflight = [None]
    segs_before = len(chan_model.segs)
    killed = False
    try:
        while True:
            ev = node.step()
            if ev is None:
                break
            if isinstance(ev, K.Op) and ev.kind != "sync":
                if sess.get("kill_at") is not None and nfs == sess["kill_at"]:
                    node.kill()
                    killed = True
                    res.fault("real_sigkill_of_session")
                    break
                nfs += 1
                b1, b2 = os.path.basename(ev.p1), os.path.basename(ev.p2 or "")
                if ev.kind == "rename" and b1 == "tmp." + b2 and M.RE_RFFILE.match(b2) \
                        and ev.p2.startswith(os.path.join(sess["top"], c.channel) + "/"):
                    m_ = M.RE_RFFILE.match(b2)
                    finalized_T.add(int(m_.group(2)) * 1000 + int(m_.group(3)))
            if isinstance(ev, dict) and ev.get("ev") == "begin" and ev.get("call") == "op":
                inflight[0] = ops[ev["i"]]
            if isinstance(ev, dict) and ev.get("ev") == "end":
                inflight[0] = None
            if isinstance(ev, dict):
                if ev.get("ev") == "child_exception":
                    raise K.HarnessError("child exception: %s" % ev)
                if ev.get("ev") in ("begin", "end"):
                    pending = ev
                continue
            nsteps += 1
            res.trace.add(si, ev.kind, ev.p1, ev.p2, ev.nbytes)
            if ev.kind != "sync":
                node.go()
                continue
            e = pending
            call = e.get("call")
            if e["ev"] == "begin":
                if call == "op":
                    op = ops[e["i"]]
                    if op.get("invalid") or op.get("collide"):
                        fp_before[0] = K.fingerprint(chdir, meta=True)
                        get_before[0] = last_get[0]
                    elif op.get("collide_mid"):
                        fp_before[0] = K.fingerprint(chdir, content=True)
                node.go()
                continue
            # ---- end of a call
            if state.get("broken"):
                node.go()  # model and writer have diverged (unexpected failure of a valid call): stop judging
                continue
            if call == "open":
                opened[0] = e["ok"]
                if sess.get("mismatch"):
                    if e["ok"]:
                        ctx.v("C11", "mismatch_accepted", "session with different %s was accepted" % sess["mismatch"],
                              field=sess["mismatch"])
                    fp = K.fingerprint(chdir, meta=True)
                    if fp != fp_before[0]:
                        ctx.v("C11", "mismatch_touched_dir", "refused session (%s) changed the directory: %s" % (
                            sess["mismatch"], K.fp_diff(fp_before[0], fp)), field=sess["mismatch"])
                    res.probe("mismatch_%s" % sess["mismatch"])
                elif not e["ok"]:
                    ctx.v("C11" if si > 0 else ctx.prop, "open_refused", "valid session refused: %s %s" % (e.get("exc"), e.get("msg")))
                else:
                    last_get[0] = e["get"]
                    g = e["get"]
                    if (g["next"], g["written"], g["gaps"]) != (0, 0, 0):
                        ctx.v("C19", "counters_after_open", "fresh writer reports %s" % g)
            elif call == "op" and not sess.get("mismatch") and opened[0]:
                i = e["i"]
                op = ops[i]
                g = e.get("get")
                if op.get("invalid"):
                    res.probe("invalid_" + op["invalid"])
                    if e["ok"]:
                        ctx.v("C05", "invalid_accepted", "invalid call (%s) %s was accepted" % (op["invalid"], _opstr(op)),
                              invalid=op["invalid"])
                        if op["invalid"] in ("w_wrap", "wb_wrap", "w_negative", "wb_negative"):
                            # data of unknown (astronomic) extent is on disk now: the tree no longer corresponds to
                            # the model and reading it back could take for ever; the violation has been recorded
                            state["broken"] = True
                    fp = K.fingerprint(chdir, meta=True)
                    if fp != fp_before[0]:
                        ctx.v("C05", "rejected_call_changed_files", "rejected call (%s) changed the directory: %s" % (
                            op["invalid"], K.fp_diff(fp_before[0], fp)), invalid=op["invalid"])
                    if get_before[0] is not None and g != get_before[0]:
                        ctx.v("C05", "rejected_call_changed_state", "rejected call (%s) changed writer state %s -> %s" % (
                            op["invalid"], get_before[0], g), invalid=op["invalid"])
                    rejected_before[0] = True
                elif op.get("collide_mid"):
                    res.probe("write_running_into_finalized_period")
                    if e["ok"]:
                        ctx.v("C11", "overwrite_accepted", "write %s running into a period finalized by an earlier session was accepted" % _opstr(op))
                    fp = K.fingerprint(chdir, content=True)
                    changed = [k_ for k_, v_ in fp_before[0].items() if v_[0] == "f" and fp.get(k_, (None,))[:3] != v_[:3]
                               and not os.path.basename(k_).startswith("tmp.") and M.RE_RFFILE.match(os.path.basename(k_))]
                    if changed:
                        ctx.v("C11", "finalized_file_altered", "refused write altered %s" % changed[:3])
                    state["c19_ok"] = False
                    state["after_collide"] = True
                    state.setdefault("mid", []).append(op)
                elif op.get("collide"):
                    res.probe("write_into_finalized_period")
                    if e["ok"]:
                        ctx.v("C11", "overwrite_accepted", "write %s into a period finalized by an earlier session was accepted" % _opstr(op))
                    fp = K.fingerprint(chdir, content=True)
                    fb = {k: v[:3] for k, v in fp_before[0].items()}
                    fp3 = {k: v[:3] for k, v in fp.items()}
                    changed = [k for k in fb if fb[k][0] == "f" and fp3.get(k) != fb[k]
                               and not os.path.basename(k).startswith("tmp.")]
                    if changed:
                        ctx.v("C11", "finalized_file_altered", "refused write altered %s" % changed[:3])
                    state["c19_ok"] = False  # counters after such a refusal are outside C19
                else:
                    if not e["ok"]:
                        if rejected_before[0]:
                            # decided by a counterfactual run without the rejected calls (see run_plan)
                            state["valid_fail_after_reject"] = "valid call %s failed (%s) after a rejected call" % (
                                _opstr(op), e.get("exc"))
                        elif state.get("after_collide"):
                            ctx.v("C11", "unusable_after_refusal", "valid write %s in a later period failed (%s) after a "
                                  "refused write" % (_opstr(op), e.get("exc")))
                        else:
                            res.probe("unexpected_valid_write_failure")
                        state["broken"] = True
                        last_get[0] = g
                        node.go()
                        continue
                    pred = RN.apply_op(sm, op)
                    if op["len"] == 0:
                        res.probe("zero_length_write")
                    if state.get("c19_ok", True):
                        if e["ret"] != pred:
                            ctx.v("C19" if not rejected_before[0] else ctx.prop if ctx.prop in ("C05", "C19") else "C19",
                                  "return_value", "call %s returned %s, next available is %s" % (_opstr(op), e["ret"], pred))
                        exp = (sm.next_avail, sm.written, sm.gaps)
                        got = (g["next"], g["written"], g["gaps"])
                        if got != exp:
                            ctx.v("C19", "counters", "after %s: (next, written, gaps)=%s expected %s" % (_opstr(op), got, exp),
                                  zero_len=op["len"] == 0)
                        if g["written"] + g["gaps"] != g["next"]:
                            ctx.v("C19", "counter_sum", "written %d + gaps %d != next %d" % (g["written"], g["gaps"], g["next"]),
                                  zero_len=op["len"] == 0)
                        if sm.last_abs is not None:
                            T = c.file_T(sm.last_abs)
                            ef = os.path.join(chdir, c.relpath(T))
                            ed = os.path.join(chdir, c.subdir_name(T)) + "/"
                            if g["last_file"] != ef or g["last_dir"] != ed:
                                ctx.v("C19", "last_file", "last file/dir %s %s expected %s %s" % (
                                    g["last_file"], g["last_dir"], ef, ed))
                if op.get("collide"):
                    state["after_collide"] = True
                last_get[0] = g
            elif call == "close" and opened[0] and not sess.get("mismatch"):
                g = e.get("get")
                if g and state.get("c19_ok", True) and not state.get("broken"):
                    if (g["next"], g["written"], g["gaps"]) != (sm.next_avail, sm.written, sm.gaps):
                        ctx.v("C19", "counters_after_close", "after close %s expected %s" % (
                            g, (sm.next_avail, sm.written, sm.gaps)))
                    if sm.last_abs is not None:
                        T = c.file_T(sm.last_abs)
                        ef = os.path.join(chdir, c.relpath(T))
                        if g["last_file"] != ef:
                            ctx.v("C19", "last_file_after_close", "last file after close %s expected %s" % (g["last_file"], ef))
            node.go()
    finally:
        node.kill()
    if killed:
        # only what was finalized (rename executed) survives; the in-flight call's samples count as written
        mine = M.RFModel(c)
        mine.segs = list(chan_model.segs[segs_before:])
        if inflight[0] is not None and not inflight[0].get("invalid") and not inflight[0].get("collide"):
            for a, n in RN.op_samples(c, inflight[0]):
                mine.add(a, n, inflight[0]["salt"])
        chan_model.segs[segs_before:] = mine.restrict_to_files(finalized_T).segs
        state["c19_ok"] = True
        state["killed_sessions"] = state.get("killed_sessions", 0) + 1
        res.probe("session_killed_%s" % ("with_finalized_files" if finalized_T else "before_any_file"))
    elif node.died_of_signal():
        ctx.res.violate(ctx.prop, "node_died", "recorder process died with status %s (session %d)" % (
            node.died_of_signal(), si))
        state["broken"] = True
    if state.get("mid") and not killed and not state.get("broken"):
        import digital_rf

        for op in state.pop("mid"):
            a0, n1 = c.start + op["_rel"], op["pre_n"]
            try:
                got = digital_rf.DigitalRFReader(top).read(a0, a0 + n1 - 1, c.channel)
                have = sum(int(v.shape[0]) for v in got.values())
            except Exception:  # noqa
                have = -1
            if have == n1:
                chan_model.add(a0, n1, op["salt"])
                res.probe("leading_part_of_refused_write_kept")
            elif have == 0:
                res.probe("leading_part_of_refused_write_dropped")
            else:
                ctx.v("C11", "refused_write_left_fragments", "of the %d samples before the finalized period, %d are readable "
                      "after the refused write %s" % (n1, have, _opstr(op)))
                state["broken"] = True
    state.pop("mid", None)
    res.stats["recorder_steps"] = res.stats.get("recorder_steps", 0) + nsteps
    return sm


def _opstr(op):
    if op["op"] == "w":
        return "rf_write(len=%d, next_sample=%s)" % (op["len"], op["rel"])
    return "rf_write_blocks(len=%d, global=%s, block=%s)" % (op["len"], op["g"][:6], op["b"][:6])


def merge_blocks(d1, d2):
    """merge two read results {start: bits}"""
    items = sorted(list(d1) + list(d2), key=lambda x: x[0])
    out = []
    for s, b in items:
        if out and out[-1][0] + out[-1][1].shape[0] == s:
            out[-1] = (out[-1][0], np.concatenate([out[-1][1], b]))
        else:
            out.append((s, b))
    return out


def _same(b1, b2):
    if len(b1) != len(b2):
        return False
    for (s1, x1), (s2, x2) in zip(b1, b2):
        if s1 != s2 or x1.shape != x2.shape or not (x1 == x2).all():
            return False
    return True


def _queries(ctx, readers, cfg, model, queries):
    """C01 / C07 / C08 clauses over the query history (readers: list of long-lived readers)"""
    res = ctx.res
    ch = cfg.channel
    for qi, q in enumerate(queries):
        rd = readers[qi % len(readers)]
        res.stat("queries")
        try:
            if q["q"] == "read":
                a, b = q["a"], q["b"]
                errs = RC.read_vs_model(rd, cfg, model, a, b, btype=q.get("btype"))
                ctx.emit(errs)
                if errs:
                    continue
                full = [(int(k), M.canon_bits(v)) for k, v in rd.read(a, b, ch).items()]
                conv = RC.BOUND_TYPES.get(q.get("btype"), int) if (q.get("btype") != "i8" or b < 2**63) else int
                if q.get("btype"):
                    res.probe("numpy_typed_range_bounds")
                gcb = rd.get_continuous_blocks(conv(a), conv(b), ch)
                if [(int(k), int(v)) for k, v in gcb.items()] != [(s, x.shape[0]) for s, x in full]:
                    ctx.v("C08", "continuous_blocks_vs_read", "get_continuous_blocks(%d,%d)=%s but read gives %s" % (
                        a, b, list(gcb.items())[:5], [(s, x.shape[0]) for s, x in full][:5]))
                if "split" in q:
                    sp = q["split"]
                    p1 = [(int(k), M.canon_bits(v)) for k, v in rd.read(a, sp, ch).items()]
                    p2 = [(int(k), M.canon_bits(v)) for k, v in rd.read(sp + 1, b, ch).items()]
                    if not _same(merge_blocks(p1, p2), full):
                        ctx.v("C08", "split_merge", "read(%d,%d) != merge(read(%d,%d), read(%d,%d))" % (a, b, a, sp, sp + 1, b))
                    res.probe("split_read")
                if "sub" in q:
                    sub = q["sub"]
                    part = [(int(k), M.canon_bits(v)) for k, v in rd.read(a, b, ch, sub).items()]
                    exp = [(s, x.reshape(x.shape[0], cfg.nsub, -1)[:, sub, :].reshape(x.shape[0], -1)) for s, x in full]
                    if not _same(part, exp):
                        ctx.v("C08", "subchannel_column", "read(%d,%d,sub_channel=%d) is not column %d of the full read" % (a, b, sub, sub))
                    for (s, x) in part:
                        pass
            elif q["q"] == "rbr":
                # one reader object: read, get_bounds, read (nothing else in between)
                ctx.emit(RC.read_vs_model(rd, cfg, model, q["a"], q["b"]))
                bnd = rd.get_bounds(ch)
                if tuple(bnd) != tuple(model.expected_bounds()):
                    ctx.v("C08", "bounds", "get_bounds %s, first/last readable index is %s" % (bnd, model.expected_bounds()))
                ctx.emit([(p_, c_, "[right after get_bounds] " + m_) for p_, c_, m_ in
                          RC.read_vs_model(rd, cfg, model, q["a2"], q["b2"])])
                res.probe("read_bounds_read_on_one_reader")
            elif q["q"] == "bounds":
                bnd = rd.get_bounds(ch)
                eb = model.expected_bounds()
                if tuple(bnd) != tuple(eb):
                    ctx.v("C08", "bounds", "get_bounds %s, first/last readable index is %s" % (bnd, eb))
                elif eb[0] is not None:
                    full = list(rd.read(eb[0], eb[1], ch).items())
                    if not full or int(full[0][0]) != eb[0] or int(full[-1][0]) + full[-1][1].shape[0] - 1 != eb[1]:
                        ctx.v("C08", "bounds", "read(bounds) does not start/end on the bounds %s" % (eb,))
                    for (x, y) in ((max(0, eb[0] - 7), eb[0] - 1), (eb[1] + 1, eb[1] + 9)):
                        if y >= x and len(rd.read(x, y, ch)):
                            ctx.v("C08", "bounds", "read(%d,%d) outside the bounds returns data" % (x, y))
            elif q["q"] == "vec":
                _vec_query(ctx, rd, cfg, model, q)
            elif q["q"] == "props":
                _props_query(ctx, rd, cfg, model, q, readers)
        except K.HarnessError:
            raise
        except Exception as e:  # noqa
            ctx.v("C08", "query_raises", "query %s raised %s: %s" % (q, type(e).__name__, str(e)[:200]))


def _vec_query(ctx, rd, cfg, model, q):
    res = ctx.res
    a, n, sub = q["a"], q["n"], q["sub"]
    ch = cfg.channel
    fn = {"raw": rd.read_vector_raw, "vec": rd.read_vector, "1d": rd.read_vector_1d}[q["fn"]]
    if q["fn"] == "1d" and sub is None:
        sub = 0
    blocks = model.expected_blocks(a, a + n - 1)
    covered = len(blocks) == 1 and blocks[0] == (a, n)
    res.probe("vec_len1" if n == 1 else "vec_len_nsub" if n == cfg.nsub else "vec_other")
    try:
        z = fn(a, n, ch, sub) if q["fn"] != "1d" else fn(a, n, ch, sub)
    except IOError as e:
        if covered:
            ctx.v("C08", "vector_read_fails_on_covered_range", "%s(%d,%d,sub=%s) raised IOError though fully covered: %s" % (
                q["fn"], a, n, sub, str(e)[:120]))
        else:
            res.probe("vector_ioerror_on_missing")
        return
    except Exception as e:  # noqa
        ctx.v("C08", "vector_read_raises", "%s(%d,%d,sub=%s) raised %s: %s" % (q["fn"], a, n, sub, type(e).__name__, str(e)[:160]),
              exc=type(e).__name__, vlen1=(n == 1))
        return
    if not covered:
        ctx.v("C08", "vector_read_partial", "%s(%d,%d) returned data although indices are missing (blocks %s)" % (
            q["fn"], a, n, blocks[:4]))
        return
    # expected raw data from the reader's own read (already verified against the model separately)
    raw = rd.read(a, a + n - 1, ch, sub)
    (k0, arr), = raw.items()
    if q["fn"] == "raw":
        got = M.canon_bits(np.asarray(z).reshape(n, -1) if np.asarray(z).ndim else np.asarray(z).reshape(1, -1))
        exp = M.canon_bits(arr.reshape(n, -1))
        if got.shape != exp.shape or not (got == exp).all():
            ctx.v("C08", "vector_raw_data", "read_vector_raw(%d,%d,sub=%s) differs from read()" % (a, n, sub))
        e = M.compare_block(cfg, model, a, arr, sub)
        if e:
            ctx.v("C01", "value_mismatch", e)
    else:
        if arr.dtype.names is not None:
            odt = np.promote_types("c8", arr.dtype["r"])
            exp = np.empty(arr.shape, dtype=odt)
            exp.real = arr["r"]
            exp.imag = arr["i"]
        else:
            exp = np.asarray(arr, dtype=np.promote_types("f4", arr.dtype))
        if exp.ndim > 1 and exp.shape[1] == 1:
            exp = exp[:, 0]
        z = np.asarray(z)
        if z.shape != exp.shape or z.dtype != exp.dtype or z.tobytes() != np.ascontiguousarray(exp).tobytes():
            ctx.v("C08", "vector_conversion", "%s(%d,%d,sub=%s): dtype/shape/values %s %s differ from lossless conversion %s %s" % (
                q["fn"], a, n, sub, z.dtype, z.shape, exp.dtype, exp.shape))
        if q["fn"] == "1d" and z.ndim != 1:
            ctx.v("C08", "vector_1d_shape", "read_vector_1d returned shape %s" % (z.shape,))


def _props_query(ctx, rd, cfg, model, q, readers):
    k = q["k"]
    tops = ctx.tops
    T = cfg.file_T(k)
    where = None
    for top in tops:
        p = os.path.join(top, cfg.channel, cfg.relpath(T))
        if os.path.exists(p):
            where = p
    try:
        pr = rd.get_properties(cfg.channel, sample=k)
    except IOError:
        if where is not None:
            ctx.v("C08", "get_properties_sample", "get_properties(sample=%d) raised IOError but %s exists" % (k, where))
        return
    if where is None:
        ctx.v("C08", "get_properties_sample", "get_properties(sample=%d) returned although file %s does not exist" % (k, cfg.relpath(T)))
        return
    raw = M.read_raw_file(where)
    for key in ("uuid_str", "sequence_num", "computer_time", "init_utc_timestamp"):
        if pr.get(key) != raw["attrs"].get(key):
            ctx.v("C08", "get_properties_sample", "get_properties(sample=%d)[%s]=%r, file %s has %r" % (
                k, key, pr.get(key), cfg.relpath(T), raw["attrs"].get(key)))


def _regenerate(ctx, cfg, model, tree, top, plan, forced=None):
    """C06: delete drf_properties.h5, recreate from a data file, reader must read back identically"""
    import digital_rf

    res = ctx.res
    chdir = os.path.join(top, cfg.channel)
    fin, _, _ = RC.final_files(chdir)
    if not fin:
        return
    try:
        rd0 = digital_rf.DigitalRFReader(top)
        props0 = dict(rd0.get_properties(cfg.channel))
        b0 = rd0.get_bounds(cfg.channel)
        before = [(int(k), M.canon_bits(v)) for k, v in rd0.read(b0[0], b0[1], cfg.channel).items()] if b0[0] is not None else []
        rd0.close()
    except Exception as e:  # noqa
        # the channel cannot even be read before the regeneration: decided by C01 / C08, nothing to compare here
        res.probe("regeneration_baseline_unreadable_%s" % type(e).__name__)
        return
    pf = os.path.join(chdir, "drf_properties.h5")
    saved = pf + ".saved"
    os.rename(pf, saved)
    import glob as _glob

    real_glob = _glob.glob
    if forced is not None:
        # regeneration from a chosen file: the two unsorted glob() calls of recreate_properties_file are
        # answered with exactly that subdirectory / file
        fsd, ffn = forced

        def fake_glob(pattern, *a, **kw):
            if pattern == os.path.join(chdir, digital_rf.list_drf.GLOB_SUBDIR):
                return [os.path.join(chdir, fsd)]
            if os.path.dirname(pattern) == os.path.join(chdir, fsd) and os.path.basename(pattern).startswith("rf@"):
                return [os.path.join(chdir, fsd, ffn)]
            return real_glob(pattern, *a, **kw)

        _glob.glob = fake_glob
        res.probe("regenerated_from_chosen_file")
    try:
        try:
            digital_rf.recreate_properties_file(chdir)
        except Exception as e:  # noqa
            ctx.v("C06", "regeneration_raises", "recreate_properties_file raised %s: %s" % (type(e).__name__, str(e)[:160]))
            return
        finally:
            _glob.glob = real_glob
        res.probe("regenerated")
        try:
            rd1 = digital_rf.DigitalRFReader(top)
            props1 = dict(rd1.get_properties(cfg.channel))
            b1 = rd1.get_bounds(cfg.channel)
            after = [(int(k), M.canon_bits(v)) for k, v in rd1.read(b1[0], b1[1], cfg.channel).items()] if b1[0] is not None else []
            rd1.close()
        except Exception as e:  # noqa
            ctx.v("C06", "regenerated_unreadable", "reader on regenerated channel raised %s: %s" % (type(e).__name__, str(e)[:160]))
            return
        for k in set(props0) | set(props1):
            v0, v1 = props0.get(k), props1.get(k)
            if isinstance(v0, np.floating) or isinstance(v1, np.floating):
                if v0 != v1:
                    ctx.v("C06", "regenerated_properties", "%s: %r -> %r" % (k, v0, v1))
            elif v0 != v1:
                ctx.v("C06", "regenerated_properties", "%s: %r -> %r" % (k, v0, v1))
        if tuple(b0) != tuple(b1) or not _same(before, after):
            ctx.v("C06", "regenerated_reads_differently", "bounds %s -> %s, data equal: %s" % (b0, b1, _same(before, after)))
    finally:
        _glob.glob = real_glob
        if os.path.exists(pf):
            os.remove(pf)
        os.rename(saved, pf)


def _run_cnode(ctx, cfg, ops, sc, cnode_bin):
    """C05 / C01 through the public C API: replay the session with the ASan/UBSan driver, paused after
    every call so that the tree can be fingerprinted around rejected calls."""
    import subprocess

    import digital_rf

    res = ctx.res
    top = os.path.join(sc, "ctree")
    chdir = os.path.join(top, cfg.channel)
    os.makedirs(chdir)
    ddir = os.path.join(sc, "cdata")
    os.makedirs(ddir)
    rd = cfg.real_dtype
    lines = ["init %s %s %d %s %d %d %d %d %d %d %d %d %d %d %s" % (
        chdir, rd.kind, rd.itemsize, "<" if (cfg.order == "<" or rd.itemsize == 1 or cfg.cstyle == "native") else ">",
        cfg.nsub, cfg.n, cfg.d, cfg.file_ms, cfg.subdir_s, int(cfg.continuous), cfg.compression, int(cfg.checksum),
        int(cfg.is_complex), cfg.start, cfg.uuid)]
    model = M.RFModel(cfg)
    sm = M.SessionModel(cfg, model)
    expect = [("init", True, None)]
    # native complex input is converted to little endian by the Python layer; the C replay stores LE too
    ccfg = cfg if cfg.cstyle != "native" else M.Cfg(**dict(cfg.to_json(), order="<"))
    for i, op in enumerate(ops):
        df = os.path.join(ddir, "op%d.bin" % i)
        if op["op"] == "w":
            rel = op["rel"] if op["rel"] is not None else sm.next_avail
            rel &= M.U64  # the C API takes uint64_t: a negative number of the plan is its two's complement there
            valid = sm.classify_write(rel, op["len"]) and op["len"] > 0
            if op["len"] == 0:
                continue
            if valid and rel - sm.next_avail > 2**40:
                continue  # (a negative number of the plan that is a valid, astronomically far index for the C API)
            bits = M.write_data_bits(ccfg, rel, op["len"], op["salt"])
            M.input_array(ccfg, bits).tofile(df)
            lines.append("w %d %d %s" % (rel, op["len"], df))
            if valid:
                pred = sm.apply_write(rel, op["len"], op["salt"])
            expect.append(("w", valid, sm.next_avail))
        else:
            g, b = [x & M.U64 for x in op["g"]], [x & M.U64 for x in op["b"]]
            k = min(len(g), len(b))
            g, b = g[:k], b[:k]
            valid = sm.classify_blocks(g, b, op["len"])
            if valid and g[-1] - sm.next_avail > 2**40:
                continue
            if cfg.continuous and k > 1:
                valid = False  # the C API rejects gapped data in continuous mode
                res.probe("c_gapped_in_continuous")
            try:
                bits = M.block_data_bits(ccfg, g, b, op["len"], op["salt"])
            except Exception:  # noqa
                bits = M.write_data_bits(ccfg, 0, op["len"], op["salt"])
            M.input_array(ccfg, bits).tofile(df)
            lines.append("wb %d %s %d %s %s" % (op["len"], df, k, " ".join(str(x) for x in g), " ".join(str(x) for x in b)))
            if valid:
                sm.apply_blocks(g, b, op["len"], op["salt"])
            expect.append(("wb", valid, sm.next_avail))
        if i % 5 == 4:
            # index_len = 0
            lines.append("wb 3 %s 0" % df)
            expect.append(("wb0", False, sm.next_avail))
    lines.append("close")
    expect.append(("close", True, None))
    pf = os.path.join(sc, "cplan.txt")
    with open(pf, "w") as f:
        f.write("\n".join(lines) + "\n")
    env = dict(os.environ)
    env.pop("LD_PRELOAD", None)
    env["ASAN_OPTIONS"] = "detect_leaks=0:abort_on_error=0:exitcode=66"
    env["UBSAN_OPTIONS"] = "halt_on_error=1:print_stacktrace=1:exitcode=67"
    proc = subprocess.Popen([cnode_bin, pf], stdin=subprocess.PIPE, stdout=subprocess.PIPE, stderr=subprocess.PIPE,
                            env=env, text=True)
    last_gidx = 0
    broken = False
    try:
        fp_next = None
        for j, (kind, valid, nxt) in enumerate(expect):
            fp_before = fp_next  # taken while the driver was paused before this call
            line = proc.stdout.readline()
            if not line:
                break
            parts = line.split()
            rc, gidx, hasfail = int(parts[2]), int(parts[3]), int(parts[4])
            res.stat("c_api_calls")
            if kind in ("w", "wb", "wb0") and not broken:
                if not valid:
                    res.probe("c_invalid_call")
                    if rc == 0:
                        ctx.v("C05", "c_invalid_accepted", "C API accepted an invalid call: %s" % lines[j])
                    fp = K.fingerprint(chdir, meta=True)
                    if fp != fp_before:
                        ctx.v("C05", "c_rejected_call_changed_files", "C API call %r was rejected (rc %d) but changed the "
                              "directory: %s" % (lines[j][:120], rc, K.fp_diff(fp_before, fp)))
                    if gidx != last_gidx:
                        ctx.v("C05", "c_rejected_call_moved_cursor", "C API call %r was rejected (rc %d) but the next-sample "
                              "position moved %d -> %d" % (lines[j][:120], rc, last_gidx, gidx))
                    if hasfail:
                        ctx.v("C05", "c_rejected_call_poisoned_writer", "rejected call %r set has_failure" % lines[j][:120])
                else:
                    if rc != 0:
                        res.probe("unexpected_valid_write_failure")
                        broken = True
                    elif gidx != nxt:
                        ctx.v("C05", "c_valid_after_rejected_wrong", "valid C API call %r: next sample %d, model says %d" % (
                            lines[j][:120], gidx, nxt))
            last_gidx = gidx
            fp_next = None
            if j + 1 < len(expect) and not expect[j + 1][1]:
                fp_next = K.fingerprint(chdir, meta=True)
            proc.stdin.write("go\n")
            proc.stdin.flush()
        proc.stdin.close()
        err = proc.stderr.read()
        rc = proc.wait(timeout=60)
    finally:
        if proc.poll() is None:
            proc.kill()
    if rc != 0 or "AddressSanitizer" in err or "runtime error" in err:
        ctx.v("C05", "c_sanitizer_report", "cnode exited %s: %s" % (rc, err[-600:]))
        return
    if broken:
        return
    # read back what the C API wrote
    try:
        reader = digital_rf.DigitalRFReader(top)
        eb = model.expected_bounds()
        if eb[0] is not None:
            for p_, cls, msg in RC.read_vs_model(reader, ccfg, model, eb[0], eb[1]):
                ctx.v("C05" if ctx.prop == "C05" else p_, "c_" + cls, "C API tree: " + msg)
            errs = RC.check_channel_files(ccfg, model, chdir, {cfg.uuid: cfg.start})
            ctx.emit([(p_, "c_" + c, m) for p_, c, m in errs], "C API tree")
        res.probe("c_api_tree_read_back")
    except K.HarnessError:
        raise
    except Exception as e:  # noqa
        ctx.v("C05", "c_tree_unreadable", "tree written through the C API: %s: %s" % (type(e).__name__, str(e)[:200]))


def run_plan(prop, plan):
    import digital_rf

    res = K.RunResult()
    ctx = Ctx(prop, res)
    cfg = M.Cfg(**plan["cfg"])
    _counter[0] += 1
    sc = K.new_scratch("rf-%d-%d" % (os.getpid(), _counter[0]))
    tree = os.path.join(sc, "tree")
    if plan.get("long_path"):
        # channel directories with an absolute path of 300+ characters (deep archive layouts)
        tree = os.path.join(sc, "L" * 120, "M" * 110, "tree")
    os.makedirs(tree)
    state = {"scratch": sc}
    seams.install(tree, plan.get("readdir_seed", 1))
    old_tz = os.environ.get("TZ")
    if plan.get("reader_tz"):
        import time as _time

        os.environ["TZ"] = plan["reader_tz"]
        _time.tzset()
        res.probe("reader_process_tz_not_utc")
    try:
        chan_model = M.RFModel(cfg)
        tops, sessions_info = [], {}
        per_top_models = {}
        early_reader = None
        early_tops = []
        for si, sess in enumerate(plan["sessions"]):
            top = os.path.join(tree, sess["top"])
            before_n = len(chan_model.segs)
            _run_session(ctx, tree, cfg, sess, si, chan_model, state)
            if state.get("broken"):
                break
            if not sess.get("mismatch"):
                if top not in tops:
                    tops.append(top)
                sessions_info[sess["uuid"]] = sess["start"]
                pm = per_top_models.setdefault(top, M.RFModel(cfg))
                pm.segs.extend(chan_model.segs[before_n:])
            if early_reader is None and tops and all(
                    os.path.exists(os.path.join(t, cfg.channel, "drf_properties.h5")) for t in tops):
                # (a reader learns at construction which top-level directories hold the channel)
                try:
                    early_tops = list(tops)
                    early_reader = digital_rf.DigitalRFReader(list(tops))
                except Exception as e:  # noqa
                    ctx.v("C01", "reader_construct_fails", "%s: %s" % (type(e).__name__, e))
                if early_reader is not None and si < len(plan["sessions"]) - 1:
                    # the early reader polls the whole window the recording is going to cover (most of it does not
                    # exist yet); what it returns now must be what is there now, and nothing it learns may stick
                    full = _plan_model(cfg, plan["sessions"])
                    fb = full.bounds_written()
                    if fb and fb[1] - fb[0] < 10**7:
                        res.probe("early_reader_polled_planned_window")
                        for p_, cls, msg in RC.read_vs_model(early_reader, cfg, chan_model, fb[0], fb[1]):
                            ctx.v(p_, cls, "[early reader, planned window] " + msg)
                        try:
                            eb_ = early_reader.get_bounds(cfg.channel)
                            if tuple(eb_) != tuple(chan_model.expected_bounds()):
                                ctx.v("C08", "bounds", "[early reader] get_bounds %s expected %s" % (eb_, chan_model.expected_bounds()))
                        except Exception as e_:  # noqa
                            ctx.v("C08", "bounds", "[early reader] get_bounds raised %s" % type(e_).__name__)
        ctx.tops = tops
        if state.get("valid_fail_after_reject"):
            if plan.get("_counterfactual"):
                res.probe("unexpected_valid_write_failure")
            else:
                stripped = copy.deepcopy(plan)
                stripped["_counterfactual"] = True
                for s_ in stripped["sessions"]:
                    s_["ops"] = [o for o in s_["ops"] if not o.get("invalid")]
                seams.uninstall()
                r2 = run_plan(prop, stripped)
                seams.install(tree, plan.get("readdir_seed", 1))
                if r2.probes.get("unexpected_valid_write_failure"):
                    res.probe("valid_write_fails_also_without_rejected_calls")
                else:
                    ctx.v("C05", "valid_after_rejected_fails", state["valid_fail_after_reject"])
        if state.get("broken") or not tops:
            res.nontrivial = False
            return res
        if plan.get("counters_only"):
            res.probe("counters_beyond_2**63")
            res.nontrivial = True
            return res
        # ---- files on disk (C04, C06, C07)
        tops = [t for t in tops if os.path.exists(os.path.join(t, cfg.channel, "drf_properties.h5"))]
        ctx.tops = tops
        if not tops:
            res.probe("nothing_published")
            return res
        for top in tops:
            errs = RC.check_channel_files(cfg, per_top_models[top], os.path.join(top, cfg.channel), sessions_info,
                                          clock_lo=K.CLOCK0_NS // 10**9)
            if state.get("killed_sessions"):
                errs = [e for e in errs if e[1] != "tmp_after_close"]
            ctx.emit(errs, os.path.basename(top))
        # ---- read back (C01, C07, C08): old reader (created after the first session) and fresh one
        try:
            fresh = digital_rf.DigitalRFReader(list(tops))
        except Exception as e:  # noqa
            ctx.v(prop, "reader_construct_fails", "%s: %s" % (type(e).__name__, e))
            return res
        readers = [fresh] + ([early_reader] if early_reader is not None and sorted(early_tops) == sorted(tops) else [])
        eb = chan_model.expected_bounds()
        if eb[0] is not None:
            for rd in readers:
                try:
                    b = rd.get_bounds(cfg.channel)
                except Exception as e:  # noqa
                    ctx.v("C08", "query_raises", "get_bounds raised %s" % e)
                    continue
                if tuple(b) != tuple(eb):
                    ctx.v("C11" if prop == "C11" else "C08", "bounds", "get_bounds %s expected %s" % (b, eb))
                ctx.emit(RC.read_vs_model(rd, cfg, chan_model, eb[0], eb[1]), "full read")
                if prop == "C11":
                    # union of sessions is a C11 clause
                    for p_, cls, msg in RC.read_vs_model(rd, cfg, chan_model, eb[0], eb[1]):
                        if p_ == "C01":
                            res.violate("C11", "union_" + cls, msg)
        _queries(ctx, readers, cfg, chan_model, plan.get("queries", []))
        if plan.get("cnode") and len(plan["sessions"]) == 1 and os.environ.get("VSIM_CNODE"):
            _run_cnode(ctx, cfg, plan["sessions"][0]["ops"], sc, os.environ["VSIM_CNODE"])
        if prop == "C06" and plan.get("restart_at") is not None and len(plan["sessions"]) == 1:
            # a recorder killed mid-way and restarted inside the period that was in progress: every file that ends
            # up under a final name must still be interpretable on its own (oracle of crashsim, C06 clauses)
            from . import crashsim

            r4 = K.RunResult()
            sub = {"cfg": plan["cfg"], "ops": [o for o in plan["sessions"][0]["ops"] if not o.get("invalid")],
                   "restart_off": plan.get("restart_off", 0.0), "restart_nops": plan.get("restart_nops", 1)}
            seams.uninstall()
            crashsim._tree_parent[0] = None
            crashsim._restart_run("C06", sub, r4, plan["restart_at"])
            seams.install(tree, plan.get("readdir_seed", 1))
            for v_ in r4.violations:
                v_["sig"]["restart"] = True
                res.violations.append(v_)
            for kk, vv in r4.faults.items():
                res.faults[kk] = res.faults.get(kk, 0) + vv
            for kk, vv in r4.probes.items():
                res.probes[kk] = res.probes.get(kk, 0) + vv
        if plan.get("regen") and len(tops) >= 1:
            _regenerate(ctx, cfg, per_top_models[tops[0]], tree, tops[0], plan)
            if plan.get("regen_each"):
                fin, _, _ = RC.final_files(os.path.join(tops[0], cfg.channel))
                for sd, fn, T in fin[:plan["regen_each"]]:
                    _regenerate(ctx, cfg, per_top_models[tops[0]], tree, tops[0], plan, forced=(sd, fn))
        # ---- non-triviality and probes
        nfiles = len(chan_model.files())
        spans = any(len(cfg.files_of(a, a + n - 1)) > 1 for a, n, _ in chan_model.segs)
        subd = len(set(cfg.subdir_sec(T) for T in chan_model.files()))
        if spans:
            res.probe("file_spanning_write")
        if subd > 1:
            res.probe("multiple_subdirs")
        segs = chan_model.sorted_segs()
        gaps_whole = any(cfg.file_T(segs[i][0]) - cfg.file_T(segs[i - 1][0] + segs[i - 1][1] - 1) > cfg.file_ms
                         for i in range(1, len(segs)))
        if gaps_whole:
            res.probe("gap_spans_whole_file")
        if any(a == cfg.window(cfg.file_T(a))[0] for a, _, _ in segs):
            res.probe("block_starts_on_first_sample_of_file")
        res.probe("cell_%s%s_%s" % (cfg.order, cfg.kind, cfg.cstyle))
        res.probe("mode_" + ("continuous_plain" if cfg.plain_continuous else "continuous_filtered" if cfg.continuous else "gapped"))
        res.stats["files"] = nfiles
        res.stats["samples"] = chan_model.total()
        res.stats["sample_time_ms"] = (chan_model.total() * cfg.d * 1000) // cfg.n
        res.stats["readdir_permutations"] = seams.permutations_done()
        res.faults["readdir_permutation"] = seams.permutations_done()
        res.nontrivial = nfiles >= 2 and (spans or prop in ("C05", "C19", "C11"))
        if prop == "C11":
            res.nontrivial = len([s for s in plan["sessions"]]) >= 2
        res.trace.add("final", nfiles, chan_model.total())
        return res
    finally:
        seams.uninstall()
        if plan.get("reader_tz"):
            import time as _time

            if old_tz is None:
                os.environ.pop("TZ", None)
            else:
                os.environ["TZ"] = old_tz
            _time.tzset()
        if not os.environ.get("VSIM_KEEP"):
            shutil.rmtree(sc, ignore_errors=True)


COMPONENTS = {
    "real": ["c/lib/rf_write_hdf5.c", "python/lib/py_rf_write_hdf5.c", "libhdf5 1.10.8 (writer)", "h5py/HDF5 2.0.0 (reader)",
             "DigitalRFWriter", "DigitalRFReader", "recreate_properties_file", "list_drf (bounds)", "tmpfs"],
    "stubbed": ["readdir order (seeded permutation of os.listdir/os.scandir)", "wall clock (virtual)"],
}
