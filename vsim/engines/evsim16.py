"""E5/C16 - ringbuffer under a faulty event channel.

Real DigitalRFRingbuffer (constructed, observer never started) over real files of varied sizes in
several channels x {RF, metadata}.  A scripted world creates / grows / deletes / renames files;
the events derived from those actions pass through a faulty channel (drop, duplicate, delay =
reorder, deliver after the file vanished) before they reach handler.dispatch(); re-scans
(_add_existing_files, _verify_ringbuffer_files) and direct add/modify/remove batches are interleaved.
After EVERY step the simulator compares the handler's bookkeeping with a ledger of what it was
told, and judges every os.remove the handler issues at the instant it is issued.
"""
from __future__ import annotations

import copy
import os
import re
import shutil

from .. import kernel as K

_counter = [0]
SUB0 = 1394368200  # 2014-03-09T12:30:00Z, subdir cadence 100 s in this world

RE_DATA = re.compile(r"^(?P<ch>.*)/(?P<sd>\d{4}-\d\d-\d\dT\d\d-\d\d-\d\d)/(?P<name>(?!tmp\.)[^/@]+?)@(?P<secs>\d+)(?:\.(?P<frac>\d{3}))?\.h5$")


def _subdir(sec):
    import datetime

    s = sec // 100 * 100
    return (datetime.datetime(1970, 1, 1) + datetime.timedelta(seconds=s)).strftime("%Y-%m-%dT%H-%M-%S")


def _path(ch, kind, key_ms):
    sec = key_ms // 1000
    if kind == "rf":
        return "%s/%s/rf@%d.%03d.h5" % (ch, _subdir(sec), sec, key_ms % 1000)
    return "%s/metadata/%s/md@%d.h5" % (ch, _subdir(sec), sec)


def gen_plan(prop, tier, rng, i):
    nch = rng.randrange(1, 4)
    kinds = rng.choice([["rf"], ["rf", "md"], ["rf", "md"], ["md"]])
    groups = [("ch%d" % c, k) for c in range(nch) for k in kinds]
    smax = rng.choice([50, 400, 1000])
    combo = (i % 7) + 1
    limits = {"size": None, "count": None, "duration": None}
    if combo & 1:
        limits["size"] = len(groups) * smax * rng.choice([1, 1, 2, 3]) + rng.choice([0, 1, 17])
    if combo & 2:
        limits["count"] = rng.choice([1, 2, 3, 5])
    if combo & 4:
        limits["duration"] = rng.choice([0, 1000, 2500, 10000])
    steps = []
    pending = []  # (deliver_at_index, event)
    clock = {g: SUB0 * 1000 + rng.randrange(0, 5) * 1000 for g in groups}
    live = []  # paths on disk
    nact = rng.randrange(10, 40 if tier == "quick" else 120)

    def emit(ev):
        r = rng.random()
        if r < 0.12:
            return  # dropped
        delay = 0 if rng.random() < 0.7 else rng.randrange(1, 6)
        pending.append([delay, ev])
        if rng.random() < 0.15:
            pending.append([delay + rng.randrange(0, 4), dict(ev)])  # duplicated

    def flush():
        due = [p for p in pending if p[0] <= 0]
        for p in due:
            pending.remove(p)
            steps.append(dict(p[1], s="ev"))
        for p in pending:
            p[0] -= 1

    for a in range(nact):
        r = rng.random()
        g = rng.choice(groups)
        if r < 0.55 or not live:
            # new file, mostly ascending time, sometimes an older (late) one
            step_ms = 1000 if g[1] == "md" else rng.choice([1000, 500, 250])
            if rng.random() < 0.85:
                clock[g] += step_ms * rng.choice([1, 1, 1, 2, 30, 101])
                key = clock[g]
            else:
                key = clock[g] - step_ms * rng.randrange(1, 6)
                if key < SUB0 * 1000:
                    key = clock[g] + step_ms
                    clock[g] = key
            if g[1] == "md":
                key = key // 1000 * 1000
            p = _path(g[0], g[1], key)
            size = rng.choice([smax, smax // 2, 1, rng.randrange(1, smax + 1)])
            if p in live:
                steps.append({"s": "fs_grow", "p": p, "size": size})
                emit({"k": "modified", "p": p})
            elif rng.random() < 0.5:
                # the writer's way: tmp file, then finalizing rename
                d, b = os.path.split(p)
                t = d + "/tmp." + b
                steps.append({"s": "fs_create", "p": t, "size": size})
                emit({"k": "created", "p": t})
                emit({"k": "modified", "p": t})
                steps.append({"s": "fs_move", "p": t, "q": p})
                emit({"k": "moved", "p": t, "q": p})
                live.append(p)
            else:
                steps.append({"s": "fs_create", "p": p, "size": size})
                if rng.random() < 0.12:
                    # the data file is a symbolic link to a copy kept outside the watched tree (an archive disk)
                    steps[-1]["link"] = True
                emit({"k": "created", "p": p})
                if rng.random() < 0.3:
                    emit({"k": "modified", "p": p})
                live.append(p)
        elif r < 0.66:
            p = rng.choice(live)
            steps.append({"s": "fs_grow", "p": p, "size": rng.randrange(1, smax + 1)})
            emit({"k": "modified", "p": p})
        elif r < 0.7:
            # a tracked file renamed inside the watched tree (both names match the grammar)
            p = rng.choice(live)
            m_ = RE_DATA.match("x/" + p)
            g2 = rng.choice(groups) if rng.random() < 0.3 else None
            kind = "md" if "/metadata/" in p else "rf"
            cands = [g_ for g_ in groups if g_[1] == kind]
            g2 = rng.choice(cands)
            key = clock[g2] + rng.choice([1000, 2000, -3000, 50000])
            if kind == "md":
                key = key // 1000 * 1000
            q = _path(g2[0], g2[1], max(key, SUB0 * 1000))
            if rng.random() < 0.35:
                # renamed to a name outside the format (set aside, back to a tmp. name, out of its subdirectory):
                # for the ringbuffer that is the deletion of the tracked file
                d_, b_ = os.path.split(p)
                q = rng.choice([p + ".bak", d_ + "/tmp." + b_, os.path.dirname(d_) + "/" + b_, "aside/" + b_])
                live.remove(p)
                steps.append({"s": "fs_move", "p": p, "q": q})
                emit({"k": "moved", "p": p, "q": q})
            elif q not in live and q != p:
                live.remove(p)
                live.append(q)
                steps.append({"s": "fs_move", "p": p, "q": q})
                emit({"k": "moved", "p": p, "q": q})
        elif r < 0.78:
            p = rng.choice(live)
            live.remove(p)
            steps.append({"s": "fs_del", "p": p})
            emit({"k": "deleted", "p": p})
        elif r < 0.84:
            steps.append({"s": rng.choice(["rescan_existing", "verify"])})
        elif r < 0.9:
            fn = rng.choice(["add", "modify", "remove"])
            ps = rng.sample(live, min(len(live), rng.randrange(1, 4)))
            if rng.random() < 0.3:
                ps.append(rng.choice(["ch0/drf_properties.h5", "ch0/%s/tmp.rf@%d.000.h5" % (_subdir(SUB0), SUB0),
                                      "ch0/notes.txt", "ch0/%s/rf@%d.000.h5" % (_subdir(SUB0 + 7), SUB0 + 7)]))
            steps.append({"s": "batch", "fn": fn, "paths": ps})
        else:
            # noise events: properties, tmp, stray, vanished paths
            p = rng.choice(["ch0/drf_properties.h5", "ch0/metadata/dmd_properties.h5",
                            "ch0/%s/tmp.rf@%d.000.h5" % (_subdir(SUB0), SUB0 + 1), "ch0/notes.txt",
                            _path(g[0], g[1], clock[g] + 7000)])
            steps.append({"s": "ev", "k": rng.choice(["created", "modified", "deleted"]), "p": p})
        flush()
    while pending:
        flush()
    plan = {"engine": "evsim16", "limits": limits, "groups": [list(g) for g in groups], "steps": steps, "smax": smax}
    if i % (3 if tier == "thorough" else 6) == 2:
        # thread tier: the existing-file scan thread and the event thread race under the baton scheduler
        plan["threads"] = {"seed": rng.randrange(2**32), "p_switch": rng.choice([0.05, 0.2, 0.5]),
                           "split": rng.random()}
    return plan


def shrink_candidates(plan):
    st = plan["steps"]
    n = len(st)
    if n > 1:
        for part in (st[: n // 2], st[:-1], st[n // 4:]):
            p = copy.deepcopy(plan)
            p["steps"] = part
            yield p
    for i in range(n):
        p = copy.deepcopy(plan)
        del p["steps"][i]
        yield p


def _group_of(root, path):
    m = RE_DATA.match(path)
    if not m:
        return None
    return (m.group("ch"), m.group("name"))


def _key_of(path):
    m = RE_DATA.match(path)
    return int(m.group("secs")) * 1000 + int(m.group("frac") or 0)


class StepCap(Exception):
    pass


class Baton:
    """Cooperative scheduler for real threads: exactly one thread runs; at every traced line of
    ringbuffer.py (and at every lock operation) the PRNG may pass the baton to another thread."""

    def __init__(self, seed, p_switch, cap=200000):
        import random
        import threading

        self.rng = random.Random(seed)
        self.p = p_switch
        self.cap = cap
        self.cv = threading.Condition()
        self.current = None
        self.alive = []
        self.waiting_lock = {}
        self.steps = 0
        self.switches = 0
        self.trace = []
        self.failed = None

    def register(self, tids):
        self.alive = sorted(tids)
        self.current = self.rng.choice(self.alive)

    def wait_turn(self, tid):
        with self.cv:
            while self.current != tid and self.failed is None:
                self.cv.wait(timeout=20)
                if self.current != tid and self.failed is None and not self.cv.wait_for(lambda: True, timeout=0):
                    pass
        if self.failed is not None and self.current != tid:
            raise StepCap(self.failed)

    def _runnable(self, lock_owner):
        return [t for t in self.alive if t not in self.waiting_lock or lock_owner() in (None, t)]

    def pass_to(self, tid, nxt, why):
        self.switches += 1
        self.trace.append("%s>%s@%s" % (tid, nxt, why))
        with self.cv:
            self.current = nxt
            self.cv.notify_all()
        self.wait_turn(tid)

    def yield_point(self, tid, label, lock):
        self.steps += 1
        if self.steps > self.cap:
            self.failed = "step cap reached (no progress / livelock)"
            with self.cv:
                self.cv.notify_all()
            raise StepCap(self.failed)
        others = [t for t in self.alive if t != tid and not (t in self.waiting_lock and lock.owner not in (None, t))]
        if others and self.rng.random() < self.p:
            self.pass_to(tid, self.rng.choice(others), label)

    def finish(self, tid):
        self.alive = [t for t in self.alive if t != tid]
        with self.cv:
            if self.alive:
                self.current = self.rng.choice(self.alive)
            else:
                self.current = None
            self.cv.notify_all()


class SchedRLock:
    """re-entrant lock understood by the baton scheduler (replaces handler._record_lock)"""

    def __init__(self, baton, tid_of):
        self.baton, self.tid_of = baton, tid_of
        self.owner, self.count = None, 0

    def acquire(self, blocking=True, timeout=-1):
        tid = self.tid_of()
        b = self.baton
        b.yield_point(tid, "lock", self)
        while self.owner not in (None, tid):
            b.waiting_lock[tid] = True
            b.pass_to(tid, self.owner, "blocked")
        b.waiting_lock.pop(tid, None)
        self.owner = tid
        self.count += 1
        return True

    def release(self):
        self.count -= 1
        if self.count == 0:
            self.owner = None
        self.baton.yield_point(self.tid_of(), "unlock", self)

    __enter__ = lambda self: self.acquire()  # noqa

    def __exit__(self, *a):
        self.release()
        return False


def _run_threaded(plan, res, sc):
    """C16 thread tier: only schedule-independent clauses are asserted."""
    import sys
    import threading

    import digital_rf
    from digital_rf import ringbuffer as rbmod
    from watchdog import events as we

    root = os.path.join(sc, "watched")
    os.makedirs(root)
    lim = plan["limits"]
    th = plan["threads"]
    real_remove = os.remove
    for ch, k in plan["groups"]:
        os.makedirs(os.path.join(root, ch), exist_ok=True)
        open(os.path.join(root, ch, "drf_properties.h5"), "w").close()
        if k == "md":
            os.makedirs(os.path.join(root, ch, "metadata"), exist_ok=True)
            open(os.path.join(root, ch, "metadata", "dmd_properties.h5"), "w").close()
    # world: apply all fs steps first (files exist before the two threads start), keep the events
    events = []
    steps = plan["steps"]
    cut = int(th["split"] * len(steps))
    for si, st in enumerate(steps):
        s = st["s"]
        if s in ("fs_create", "fs_grow"):
            p = os.path.join(root, st["p"])
            os.makedirs(os.path.dirname(p), exist_ok=True)
            with open(p, "wb") as f:
                f.write(b"x" * st["size"])
        elif s == "fs_move":
            p, q = os.path.join(root, st["p"]), os.path.join(root, st["q"])
            if os.path.exists(p):
                os.makedirs(os.path.dirname(q), exist_ok=True)
                os.rename(p, q)
        elif s == "fs_del" and si < cut:
            p = os.path.join(root, st["p"])
            if os.path.exists(p):
                real_remove(p)
        elif s == "ev":
            events.append(st)
    rb = rbmod.DigitalRFRingbuffer(root, size=lim["size"], count=lim["count"], duration=lim["duration"],
                                   verbose=False, status_interval=None)
    h = rb.event_handler
    baton = Baton(th["seed"], th["p_switch"])
    tids = {}

    def tid_of():
        return tids[threading.get_ident()]

    lock = SchedRLock(baton, tid_of)
    h._record_lock = lock
    errors = []

    def my_remove(path, *a, **kw):
        path = os.fspath(path)
        if path.startswith(root + os.sep):
            res.stat("deletions")
            base = os.path.basename(path)
            if base.startswith("tmp.") or not RE_DATA.match(path):
                res.violate("C16", "deleted_non_data_file", "[threads] os.remove(%s)" % os.path.relpath(path, root))
            g, k = _group_of(root, path), _key_of(path)
            older = [p for p in list(h.records) if p != path and _group_of(root, p) == g and _key_of(p) < k]
            if older:
                res.violate("C16", "not_oldest_first", "[threads] deleted %s while older %s of the same channel is tracked" % (
                    os.path.relpath(path, root), os.path.relpath(older[0], root)))
        elif path.startswith(sc):
            res.violate("C16", "deleted_outside_tree", "[threads] os.remove(%s)" % path)
        return real_remove(path, *a, **kw)

    def tracer_for(tid):
        def local(frame, event, arg):
            if event == "line":
                baton.yield_point(tid, "L%d" % frame.f_lineno, lock)
            return local

        def glob(frame, event, arg):
            if frame.f_code.co_filename.endswith("ringbuffer.py"):
                return local
            return None
        return glob

    def body(tid, fn):
        tids[threading.get_ident()] = tid
        try:
            baton.wait_turn(tid)
            sys.settrace(tracer_for(tid))
            try:
                fn()
            finally:
                sys.settrace(None)
        except StepCap as e:
            errors.append(("step_cap", str(e)))
        except Exception as e:  # noqa
            import traceback

            errors.append(("exception", "%s: %s | %s" % (type(e).__name__, e, traceback.format_exc()[-400:])))
        finally:
            baton.finish(tid)

    mk = {"created": we.FileCreatedEvent, "modified": we.FileModifiedEvent, "deleted": we.FileDeletedEvent}

    def t_events():
        for st in events:
            p = os.path.join(root, st["p"])
            if st["k"] == "moved":
                h.dispatch(we.FileMovedEvent(p, os.path.join(root, st["q"])))
            else:
                h.dispatch(mk[st["k"]](p))

    baton.register(["scan", "events"])
    os.remove = my_remove
    try:
        t1 = threading.Thread(target=body, args=("scan", rb._add_existing_files), daemon=True)
        t2 = threading.Thread(target=body, args=("events", t_events), daemon=True)
        t1.start()
        t2.start()
        t1.join(60)
        t2.join(60)
        if t1.is_alive() or t2.is_alive():
            baton.failed = "deadlock"
            with baton.cv:
                baton.cv.notify_all()
            res.violate("C16", "threads_deadlock", "scan and event threads did not finish (schedule of %d switches)" % baton.switches)
    finally:
        os.remove = real_remove
    for kind, msg in errors:
        res.violate("C16", "threads_" + kind, msg)
    # internal consistency once both threads are done (all mutations happen under the lock)
    recs = h.records
    qpaths = [p for q in h.queues.values() for _, p in q]
    if sorted(qpaths) != sorted(recs.keys()):
        res.violate("C16", "records_vs_queues", "[threads] records and queues disagree after both threads finished")
    for g, q in h.queues.items():
        ks = [k for k, _ in q]
        if ks != sorted(ks):
            res.violate("C16", "queue_not_sorted", "[threads] queue of %s not ascending" % (g,))
    if lim["size"] is not None and h.active_size != sum(r.size for r in recs.values()):
        res.violate("C16", "active_size_wrong", "[threads] active_size %d != sum of record sizes %d" % (
            h.active_size, sum(r.size for r in recs.values())))
    import hashlib

    res.trace.add("sched", hashlib.sha256("|".join(baton.trace).encode()).hexdigest()[:16], baton.switches, len(recs))
    res.stats["thread_switches"] = baton.switches
    res.stats["scheduler_steps"] = baton.steps
    res.faults["thread_preemption"] = baton.switches
    res.probe("thread_tier_run")
    res.nontrivial = baton.switches >= 2 and len(events) >= 3


def run_plan(prop, plan):
    import digital_rf
    from digital_rf import ringbuffer as rbmod
    from watchdog import events as we

    res = K.RunResult()
    _counter[0] += 1
    sc = K.new_scratch("ev16-%d-%d" % (os.getpid(), _counter[0]))
    if plan.get("threads"):
        try:
            _run_threaded(plan, res, sc)
            return res
        finally:
            if not os.environ.get("VSIM_KEEP"):
                shutil.rmtree(sc, ignore_errors=True)
    root = os.path.join(sc, "watched")
    os.makedirs(root)
    lim = plan["limits"]
    T = {}  # ledger: abs path -> size when last reported
    removed_log = []
    real_remove = os.remove
    state = {"step": None, "handler": None, "batch": None}

    def viol(cls, msg, **sig):
        res.violate("C16", cls, "step %s: %s" % (state["step"], msg), **sig)

    def limits_exceeded(path):
        """is any configured limit exceeded on the ledger, counting `path`'s group / everything?"""
        g = _group_of(root, path)
        members = [p for p in T if _group_of(root, p) == g]
        why = []
        if lim["count"] is not None and len(members) > lim["count"]:
            why.append("count")
        if lim["duration"] is not None and members:
            ks = [_key_of(p) for p in members]
            if max(ks) - min(ks) > lim["duration"]:
                why.append("duration")
        if lim["size"] is not None and sum(T.values()) > lim["size"]:
            why.append("size")
        return why

    def my_remove(path, *a, **kw):
        path = os.fspath(path)
        if not path.startswith(sc):
            return real_remove(path, *a, **kw)
        h = state["handler"]
        res.stat("deletions")
        base = os.path.basename(path)
        batch = state.get("batch")
        if not path.startswith(root + os.sep):
            viol("deleted_outside_tree", "os.remove(%s) outside the watched tree" % path)
        if base.startswith("tmp.") or base in ("drf_properties.h5", "dmd_properties.h5", "metadata.h5") or not RE_DATA.match(path):
            viol("deleted_non_data_file", "os.remove(%s): not a finalized data/metadata file" % os.path.relpath(path, root))
        elif path not in T and not (batch is not None and path in batch["items"]):
            viol("deleted_untracked_file", "os.remove(%s): file was not tracked" % os.path.relpath(path, root))
        else:
            g = _group_of(root, path)
            k = _key_of(path)
            # never a file newer than one it keeps: judged on what the handler tracks at this instant
            kept_older = [p for p in h.records if p != path and _group_of(root, p) == g and _key_of(p) < k]
            if batch is None:
                kept_older += [p for p in T if p != path and _group_of(root, p) == g and _key_of(p) < k]
            if kept_older:
                viol("not_oldest_first", "deleted %s while older %s of the same channel is kept" % (
                    os.path.relpath(path, root), os.path.relpath(kept_older[0], root)))
            if batch is not None:
                # inside a batch the handler is told item by item in an order the simulator does not see:
                # judge against the upper bound of what it may legitimately believe at this instant
                saved = dict(T)
                for p, sz in batch["items"].items():
                    if p not in batch["removed"] or p == path:
                        T[p] = max(T.get(p, 0), sz)
                for p, sz in batch["before"].items():
                    if p in T:
                        T[p] = max(T[p], sz)
                if path not in T:
                    T[path] = batch["items"].get(path, 0)
                why = limits_exceeded(path)
                T.clear()
                T.update(saved)
                batch["removed"].add(path)
            else:
                why = limits_exceeded(path)
            if not why:
                viol("deleted_within_limits", "deleted %s although no configured limit %s is exceeded on the reported "
                     "files (%d files, %d bytes)" % (os.path.relpath(path, root), lim, len(T), sum(T.values())))
            else:
                res.probe("expired_for_" + "+".join(why))
            T.pop(path, None)
        removed_log.append(path)
        return real_remove(path, *a, **kw)

    def begin_batch(paths):
        """paths the handler is about to be told about in one batch (stat'ed up front, as add_files does)"""
        items = {}
        for p in paths:
            if accepted(state["handler"], p) and os.path.isfile(p):
                items[p] = os.stat(p).st_size
        state["batch"] = {"items": items, "removed": set(), "before": dict(T)}

    def end_batch(modify_only=False):
        b = state.pop("batch")
        state["batch"] = None
        h = state["handler"]
        for p, sz in b["items"].items():
            if p in b["removed"]:
                if p in h.records:
                    # told again from the record made before it was expired in this very batch
                    T[p] = sz
                    res.probe("phantom_readd_after_expiry_in_same_batch")
                continue
            T[p] = sz

    def accepted(h, path):
        return any(r.match(path) for r in h.regexes)

    def report(h, path):
        """the handler is told about `path` (creation / modification): ledger update"""
        if accepted(h, path) and os.path.isfile(path):
            T[path] = os.stat(path).st_size
            return True
        return False

    try:
        kinds = set(k for _, k in plan["groups"])
        for ch, k in plan["groups"]:
            os.makedirs(os.path.join(root, ch), exist_ok=True)
            open(os.path.join(root, ch, "drf_properties.h5"), "w").close()
            if k == "md":
                os.makedirs(os.path.join(root, ch, "metadata"), exist_ok=True)
                open(os.path.join(root, ch, "metadata", "dmd_properties.h5"), "w").close()
        rb = rbmod.DigitalRFRingbuffer(root, size=lim["size"], count=lim["count"], duration=lim["duration"],
                                       verbose=False, status_interval=None)
        h = rb.event_handler
        state["handler"] = h
        os.remove = my_remove
        mk = {"created": we.FileCreatedEvent, "modified": we.FileModifiedEvent, "deleted": we.FileDeletedEvent}
        for si, st in enumerate(plan["steps"]):
            state["step"] = "%d %s" % (si, {k: v for k, v in st.items() if k != "paths"})
            s = st["s"]
            res.trace.add(si, s, st.get("k"), st.get("p"))
            created_now = None
            try:
                if s == "fs_create" or s == "fs_grow":
                    p = os.path.join(root, st["p"])
                    os.makedirs(os.path.dirname(p), exist_ok=True)
                    if st.get("link") and not os.path.lexists(p):
                        arch = os.path.join(sc, "archive")
                        os.makedirs(arch, exist_ok=True)
                        os.symlink(os.path.join(arch, "%d-%s" % (len(os.listdir(arch)), os.path.basename(p))), p)
                        res.probe("tracked_file_is_a_symlink")
                    with open(p, "wb") as f:
                        f.write(b"x" * st["size"])
                    continue
                if s == "fs_del":
                    p = os.path.join(root, st["p"])
                    if os.path.exists(p):
                        real_remove(p)
                    continue
                if s == "fs_move":
                    p, q = os.path.join(root, st["p"]), os.path.join(root, st["q"])
                    if os.path.exists(p):
                        os.makedirs(os.path.dirname(q), exist_ok=True)
                        os.rename(p, q)
                    continue
                if s == "ev":
                    p = os.path.join(root, st["p"])
                    k = st["k"]
                    res.stat("events_delivered")
                    if not os.path.exists(p) and k != "deleted" and k != "moved":
                        res.fault("stale_event_for_vanished_file")
                    if k == "moved":
                        q = os.path.join(root, st["q"])
                        e = we.FileMovedEvent(p, q)
                        a_s, a_d = accepted(h, p), accepted(h, q)
                        # ledger semantics of the (converted) event
                        if a_s:
                            T.pop(p, None)
                        if a_d and report(h, q):
                            created_now = q
                        if a_d and not a_s:
                            res.probe("finalizing_rename_as_creation")
                    else:
                        e = mk[k](p)
                        if k == "deleted":
                            if accepted(h, p):
                                T.pop(p, None)
                        else:
                            was = p in T
                            if report(h, p) and (k == "created" or not was):
                                # (a file first heard of through a modification - its creation event was lost - is
                                #  newly reported all the same: the limits must hold once it has been handled)
                                created_now = p
                                if was:
                                    res.fault("duplicate_creation_event")
                                elif k != "created":
                                    res.probe("first_report_is_a_modification")
                    h.dispatch(e)
                elif s == "rescan_existing":
                    begin_batch(digital_rf.list_drf.lsdrf(root, include_drf_properties=False, include_dmd_properties=False))
                    rb._add_existing_files()
                    end_batch()
                    res.fault("rescan_existing")
                elif s == "verify":
                    inbuffer = set(h.records.keys())
                    ondisk = set(digital_rf.list_drf.lsdrf(root, include_drf_properties=False, include_dmd_properties=False))
                    for p in inbuffer - ondisk:
                        T.pop(p, None)
                    begin_batch(ondisk)
                    rb._verify_ringbuffer_files(inbuffer)
                    end_batch()
                    res.fault("verify_rescan")
                elif s == "batch":
                    paths = [os.path.join(root, p) for p in st["paths"]]
                    if st["fn"] == "add":
                        begin_batch(paths)
                        h.add_files(paths)
                        end_batch()
                    elif st["fn"] == "modify":
                        begin_batch(paths)
                        h.modify_files(paths)
                        end_batch()
                    else:
                        for p in paths:
                            T.pop(p, None)
                        h.remove_files(paths)
                    res.fault("direct_batch_" + st["fn"])
            except K.HarnessError:
                raise
            except Exception as ex:  # noqa
                import traceback

                viol("handler_raises", "%s: %s | %s" % (type(ex).__name__, ex, traceback.format_exc()[-300:]))
                break
            # ---- invariants after the step
            recs = h.records
            qpaths = []
            for g, q in h.queues.items():
                ks = [k for k, _ in q]
                if ks != sorted(ks):
                    viol("queue_not_sorted", "queue of %s not in ascending time order: %s" % (g, ks[:8]))
                qpaths.extend(p for _, p in q)
            if sorted(qpaths) != sorted(recs.keys()):
                viol("records_vs_queues", "records and queues disagree: %d records, %d queued (dups: %s)" % (
                    len(recs), len(qpaths), len(qpaths) != len(set(qpaths))))
            if set(recs.keys()) != set(T.keys()):
                extra = sorted(set(recs) - set(T))[:3]
                missing = sorted(set(T) - set(recs))[:3]
                viol("tracked_set_wrong", "tracked set differs from what was reported: extra %s missing %s" % (
                    [os.path.relpath(p, root) for p in extra], [os.path.relpath(p, root) for p in missing]))
            else:
                bad = [p for p in recs if recs[p].size != T[p]]
                if bad and lim["size"] is not None:
                    viol("record_size_stale", "%s: recorded size %d, size when last reported %d" % (
                        os.path.relpath(bad[0], root), recs[bad[0]].size, T[bad[0]]))
            if lim["size"] is not None:
                tot = sum(r.size for r in recs.values())
                if h.active_size != tot:
                    viol("active_size_wrong", "active_size %d != sum of record sizes %d (%d records)" % (
                        h.active_size, tot, len(recs)), dup=bool(res.faults.get("duplicate_creation_event")))
            if created_now is not None and set(recs.keys()) == set(T.keys()):
                # every configured limit holds again on the tracked set
                for g in set(_group_of(root, p) for p in T):
                    members = [p for p in T if _group_of(root, p) == g]
                    if lim["count"] is not None and len(members) > lim["count"] and g == _group_of(root, created_now):
                        viol("limit_not_restored", "count limit %d exceeded by %s after a creation was handled" % (lim["count"], g))
                    if lim["duration"] is not None and g == _group_of(root, created_now):
                        ks = [_key_of(p) for p in members]
                        if max(ks) - min(ks) > lim["duration"]:
                            viol("limit_not_restored", "duration limit %d exceeded by %s after a creation was handled" % (lim["duration"], g))
                if lim["size"] is not None and sum(T.values()) > lim["size"]:
                    # legal only if every other channel is down to one file and ... the size limit is >= one
                    # largest file per channel, so it must hold
                    viol("limit_not_restored", "size limit %d exceeded (%d bytes tracked) after a creation was handled" % (
                        lim["size"], sum(T.values())))
        res.stats["tracked_at_end"] = len(T)
        res.nontrivial = res.stats.get("deletions", 0) >= 1 and res.stats.get("events_delivered", 0) >= 5
        res.probe("limits_%s" % "+".join(k for k in ("size", "count", "duration") if lim[k] is not None))
        return res
    finally:
        os.remove = real_remove
        if not os.environ.get("VSIM_KEEP"):
            shutil.rmtree(sc, ignore_errors=True)


COMPONENTS = {
    "real": ["ringbuffer.DigitalRFRingbuffer (constructed)", "DigitalRFRingbufferHandler incl. Size/Count/Time expirers",
             "DigitalRFEventHandler.dispatch", "_add_existing_files", "_verify_ringbuffer_files", "list_drf.ilsdrf", "tmpfs files"],
    "stubbed": ["watchdog Observer/emitter/inotify (faulty channel built by the simulator)", "DirWatcher start/restart",
                "status/join supervision loop", "the recorder (files are created by the world script with the format's names)"],
}
