"""Recorder-side code: executes RF write plans through the public Python API.

Runs either inside a lock-step node (report = node's report function) or in-process.
"""
from __future__ import annotations

import os

import numpy as np

from . import model_rf as M


def getters(w):
    return {
        "next": int(w.get_next_available_sample()),
        "written": int(w.get_total_samples_written()),
        "gaps": int(w.get_total_gap_samples()),
        "last_file": w.get_last_file_written(),
        "last_dir": w.get_last_dir_written(),
    }


def open_writer(top, cfg):
    import digital_rf

    if getattr(cfg, "tz", None):
        import time

        os.environ["TZ"] = cfg.tz
        time.tzset()

    dt, is_cplx = cfg.writer_dtype()
    return digital_rf.DigitalRFWriter(
        os.path.join(top, cfg.channel), dt, cfg.subdir_s, cfg.file_ms, cfg.start, cfg.n, cfg.d,
        uuid_str=cfg.uuid, compression_level=cfg.compression, checksum=cfg.checksum,
        is_complex=is_cplx, num_subchannels=cfg.nsub, is_continuous=cfg.continuous,
        marching_periods=False,
    )


def _strided(a):
    big = np.zeros((2 * len(a),) + a.shape[1:], dtype=a.dtype)
    if big.dtype.kind in "iu":
        big[...] = 77
    big[::2] = a
    v = big[::2]
    assert len(a) < 2 or not v.flags["C_CONTIGUOUS"]
    return v


def _as_native_complex(cfg, arr):
    """the same values as a native complex64 / complex128 array (what a DSP chain hands over), whatever element
    byte order and complex style the channel was declared with"""
    rd = cfg.real_dtype
    nat = np.dtype("f%d" % rd.itemsize)
    N = arr.shape[0]
    flat = np.ascontiguousarray(arr).reshape(N, -1).view(rd).reshape(N, cfg.nsub, 2)
    out = flat.astype(nat)   # byte swap only: bit patterns of the values are kept
    return np.ascontiguousarray(out).view("c%d" % (2 * rd.itemsize)).reshape(N, cfg.nsub)


def do_op(w, cfg, op):
    """execute one write op (valid or invalid) -> return value; raises what the API raises"""
    k = op["op"]
    if k == "w":
        bits = M.write_data_bits(cfg, op["_rel"] if op.get("_rel") is not None else (op["rel"] or 0),
                                 op["len"], op["salt"])
        arr = M.input_array(cfg, bits)
        if op.get("layout") == "data_strided":
            arr = _strided(arr)
        elif op.get("layout") == "as_complex":
            arr = _as_native_complex(cfg, arr)
        elif op.get("layout") == "flat_iq" and cfg.cstyle == "interleaved" and cfg.nsub == 1:
            arr = arr.reshape(-1)   # I/Q as one flat real array of length 2N (np.fromfile of an sc16 stream)
        if op["rel"] is None:
            return int(w.rf_write(arr))
        return int(w.rf_write(arr, op["rel"]))
    if k == "wb":
        g, b = op["g"], op["b"]
        # data rows follow the *declared* layout when it is well formed, else salt-only filler
        try:
            bits = M.block_data_bits(cfg, g, b, op["len"], op["salt"])
        except Exception:
            bits = M.write_data_bits(cfg, 0, op["len"], op["salt"])
        arr = M.input_array(cfg, bits)
        ga = np.array(g, dtype=np.int64 if min(g) < 0 else np.uint64)
        ba = np.array(b, dtype=np.int64 if min(b) < 0 else np.uint64)
        lay = op.get("layout")
        if lay == "strided":
            # every second element of a larger table (a view, not C-contiguous)
            ga, ba = _strided(ga), _strided(ba)
        elif lay == "column":
            tab = np.zeros((len(g), 2), dtype=ga.dtype)
            tab[:, 0] = ga
            tab[:, 1] = 0xDEADBEEF
            ga = tab[:, 0]
            ba = _strided(ba)
        elif lay == "data_strided":
            arr = _strided(arr)
        elif lay == "as_complex":
            arr = _as_native_complex(cfg, arr)
        elif lay == "flat_iq" and cfg.cstyle == "interleaved" and cfg.nsub == 1:
            arr = arr.reshape(-1)
        return int(w.rf_write_blocks(arr, ga, ba))
    raise ValueError("unknown op %r" % k)


def run_session(report, top, cfg, ops, session=0, sync=False, before_op=None):
    """open writer, run ops, close; report every API outcome.
    sync=True parks the node (kind "sync") after every report so the simulator can look."""
    _report = report
    if sync:
        def report(obj):  # noqa
            _report(obj)
            _report.sync("%s:%s:%s" % (obj["ev"][0], obj["call"], obj.get("i", "")))
    report({"ev": "begin", "call": "open", "s": session})
    try:
        w = open_writer(top, cfg)
    except Exception as e:  # noqa
        report({"ev": "end", "call": "open", "s": session, "ok": False, "exc": type(e).__name__,
                "msg": str(e)[:200]})
        return None
    report({"ev": "end", "call": "open", "s": session, "ok": True, "get": getters(w)})
    for i, op in enumerate(ops):
        if op["op"] == "close":
            break
        if before_op is not None:
            before_op(i)
        report({"ev": "begin", "call": "op", "s": session, "i": i})
        try:
            ret = do_op(w, cfg, op)
        except Exception as e:  # noqa
            report({"ev": "end", "call": "op", "s": session, "i": i, "ok": False,
                    "exc": type(e).__name__, "msg": str(e)[:200], "get": getters(w)})
        else:
            report({"ev": "end", "call": "op", "s": session, "i": i, "ok": True, "ret": ret,
                    "get": getters(w)})
    report({"ev": "begin", "call": "close", "s": session})
    try:
        if getattr(cfg, "exit_by_exception", False):
            # `with writer:` left by an exception of the application (the usual way a recorder script dies)
            try:
                with w:
                    raise KeyError("application error inside the with block")
            except KeyError:
                pass
        else:
            w.close()
    except Exception as e:  # noqa
        report({"ev": "end", "call": "close", "s": session, "ok": False, "exc": type(e).__name__})
    else:
        report({"ev": "end", "call": "close", "s": session, "ok": True, "get": getters(w)})
    return w


def op_samples(cfg, op):
    """[(abs_start, length)] a (valid) op writes"""
    if op["op"] == "w":
        rel = op["_rel"] if op.get("_rel") is not None else op["rel"]
        return [(cfg.start + rel, op["len"])]
    out = []
    g, b = op["g"], op["b"]
    for i in range(len(g)):
        hi = b[i + 1] if i + 1 < len(g) else op["len"]
        out.append((cfg.start + g[i], hi - b[i]))
    return out


def apply_op(sess, op):
    """apply a valid op to the session model; returns predicted return value"""
    if op["op"] == "w":
        rel = op["_rel"] if op.get("_rel") is not None else op["rel"]
        return sess.apply_write(rel, op["len"], op["salt"])
    return sess.apply_blocks(op["g"], op["b"], op["len"], op["salt"])
