"""bin/check <Cxx> [--tier quick|thorough] [--replay FILE] [--runs N] [--budget S]

exit 0  property held on everything explored (KNOWN-FINDING lines possible)
exit 1  VIOLATION property=<id> replay=<path>
exit 2  HARNESS-ERROR / HARNESS-NONDETERMINISM (never a pass, never a violation)
"""
from __future__ import annotations

import argparse
import importlib
import json
import os
import sys
import time
import traceback

from . import build as B
from . import kernel as K

ASSUME_COMMON = [
    "extension and libdigital_rf are rebuilt from /repo's working tree against Debian libhdf5_serial 1.10.8 "
    "(the shipped wheel links HDF5 1.14.5 statically; not available offline)",
    "stage/_version.py regenerated with the installed distribution's version (tree's generated file says 0.1.dev1)",
    "scratch trees live on tmpfs (/dev/shm); crash = death of the process, page cache survives",
    "HDF5 file locking disabled (HDF5_USE_FILE_LOCKING=FALSE) so a parked recorder equals a killed one",
]

# property -> (engine module, level, quick runs, thorough runs, quick budget s, thorough budget s)
REGISTRY = {
    "C02": ("vsim.engines.crashsim", "fault_enumeration", 1000, 12000, 100, 900),
    "C09": ("vsim.engines.crashsim", "fault_enumeration", 500, 8000, 110, 900),
    "C10": ("vsim.engines.crashsim", "fault_enumeration", 300, 3000, 120, 1200),
    "C01": ("vsim.engines.rfsim", "exploration", 3000, 60000, 100, 900),
    "C04": ("vsim.engines.rfsim", "exploration", 3000, 60000, 100, 900),
    "C05": ("vsim.engines.rfsim", "exploration", 3000, 60000, 100, 900),
    "C06": ("vsim.engines.rfsim", "exploration", 2500, 40000, 100, 900),
    "C07": ("vsim.engines.rfsim", "exploration", 3000, 50000, 100, 900),
    "C08": ("vsim.engines.rfsim", "exploration", 2000, 40000, 100, 900),
    "C11": ("vsim.engines.rfsim", "exploration", 3000, 50000, 100, 900),
    "C19": ("vsim.engines.rfsim", "exploration", 3000, 60000, 100, 900),
    "C12": ("vsim.engines.mdsim", "exploration", 2500, 40000, 110, 900),
    "C13": ("vsim.engines.mdsim", "exploration", 2000, 40000, 110, 900),
    "C20": ("vsim.engines.mdsim", "exploration", 2500, 40000, 100, 900),
    "C15": ("vsim.engines.evsim15", "exploration", 10000, 150000, 90, 900),
    "C16": ("vsim.engines.evsim16", "exploration", 40000, 600000, 90, 900),
    "C17": ("vsim.engines.evsim17", "fault_enumeration", 2500, 40000, 100, 900),
    "C14": ("vsim.engines.lssim", "exploration", 20000, 300000, 90, 900),
    "C18": ("vsim.engines.lssim", "exploration", 6000, 80000, 90, 900),
}

_RF = ("one run = one seeded history: channel configuration (type cell x rate x cadences x mode, start snapped to a "
       "file/subdir boundary half of the time) x writer session(s) through the real C library in a forked node x "
       "reader/query history on old and fresh reader objects under a shuffled readdir order; distinct = distinct "
       "trace digests (FS-op trace of the recorder + outcome); ")
_MD = ("one run = one seeded call-level history on one tree: ascending metadata writes (single / dict-of-arrays / "
       "list-of-dicts, indices biased to ceil(j*cadence*n/d)+{-1,0,1} and to digit-count changes), duplicate attempts, "
       "writer reopen, reader construction, queries on old and new readers, clock jumps; distinct = distinct trace "
       "digests; non-trivial: >= 3 samples in >= 2 files; ")
RULES = {
    "C14": "one run = one generated tree (2-5 directories of kinds RF / metadata / legacy / both / none, nested, 0-4 "
           "subdirectories each with 0-5 files, near-miss and tmp names, strays) x 14 (quick) / 42 queries (start directory x "
           "recursive x reverse x window on file/subdir times and between x include flags incl. defaults) against a "
           "set-theoretic model + reverse-set equality; every second run instead advances the lazy ilsdrf generator while 1-3 "
           "subdirectories vanish / are emptied / gain a file right before they are listed (readdir hook); non-trivial: >= 2 "
           "channel directories; distinct = distinct trace digests",
    "C18": "one run = one command (run index mod 3: cp/mv/ln) x generated options (channel lists, --only, -R, ISO time window, "
           "include flags, --symbolic) on a tree of 1-2 real recordings (+metadata) plus a generated noise tree; destination "
           "compared with what the equivalent lsdrf selects on a pristine copy; non-trivial: >= 2 files transferred",
    "C17": "one run = method (run index mod 3: move/copy/link) x 1-2 channels of real RF (+metadata) recordings growing over "
           "2-4 rounds x event history derived from the model of the recording with duplication (20%), delay to later rounds "
           "(10%), local reordering, stale very-late duplicates, seeded handler order per event, optional EXDEV on "
           "source->destination rename/link, optional replay of existing files; EVERY FS-op boundary of the mirror phases is "
           "a crash state for the no-loss and staged-publication invariants; evaluations = boundaries evaluated; non-trivial: "
           ">= 2 RF files mirrored; distinct = distinct trace digests",
    "C16": "one run = one limit combination (run index mod 7 over size/count/duration) x 1-3 channels x {RF, metadata} x a "
           "seeded world script of 10-40 (quick) / 10-120 file actions whose events pass a faulty channel (12% dropped, 15% "
           "duplicated, 30% delayed by 1-5 steps = reordered / stale) with re-scans, verify passes, direct batches and noise "
           "events interleaved; invariants after EVERY step, every os.remove judged when issued; non-trivial: >= 1 deletion "
           "and >= 5 delivered events; distinct = distinct trace digests",
    "C15": "one run = one handler configuration (include flags incl. None defaults, window) x 80 (quick) / 300 seeded events "
           "over the bounded path grammar (valid and near-miss channel paths, subdirectories, file names, times at and "
           "around the window edges; all event kinds; moved events in all src/dest combinations) + in every third run the "
           "event stream derived from the FS ops of a real recording; each event's outcome compared with the real listing on "
           "a scratch tree; non-trivial: >= 1 accepted creation; distinct = distinct trace digests. The grammar is sampled, "
           "not exhausted.",
    "C12": _MD + "every read compared with an ordered-map model",
    "C13": _MD + "after every write every stored group located on disk with raw h5py and compared with exact placement",
    "C20": _MD + "RF writes interleaved in 70% of the runs; whole-tree fingerprint (hash, mtime_ns, inode) around every read-only call",
    "C01": _RF + "non-trivial: >= 2 data files and >= 1 file-spanning write",
    "C04": _RF + "non-trivial: >= 2 data files and >= 1 file-spanning write",
    "C05": _RF + "invalid calls of every class interleaved; non-trivial: >= 2 data files",
    "C06": _RF + "every file inspected raw; properties regenerated once per run; non-trivial: >= 2 files and a file-spanning write",
    "C07": _RF + "continuous mode, (type, byte order, complex style) cell = run index mod 70; non-trivial: >= 2 files and a file-spanning write",
    "C08": _RF + "30 generated queries per run (ranges on file/block/gap edges, splits, subchannels, vector reads incl. length 1 and nsub); non-trivial: >= 2 files and a file-spanning write",
    "C11": _RF + "2-4 sessions over 1-3 top-level directories incl. single-parameter mismatches and writes into finalized periods; non-trivial: >= 2 sessions",
    "C19": _RF + "getters compared with the model after every call, rejected calls interleaved; non-trivial: >= 2 data files",
    "C02": "one run = one seeded recording (config x write sequence) executed in lock-step; EVERY boundary "
           "between two FS ops of the recorder is evaluated as a crash state (+ torn writes, + one real SIGKILL "
           "cross-check); evaluations = crash states evaluated; a run is non-trivial when it produced >= 2 data "
           "files and >= 1 file-spanning write; distinct = distinct trace digests",
    "C09": "one run = one seeded recording in lock-step with reader passes (fresh, long-lived, two mid-run "
           "readers) on the live tree at EVERY op boundary; evaluations = boundaries with passes; non-trivial: "
           ">= 2 files and a file-spanning write; distinct = distinct trace digests",
    "C10": "one run = one seeded recording; reference execution gives the op list, then one execution per "
           "(op position x {ENOSPC,EIO} x {once, same-kind persistent, device persistent}) - all positions in "
           "thorough and every 4th quick run, else 24 sampled; evaluations = fault executions; non-trivial: >= 2 "
           "fault executions on a recording with >= 1 data file",
}


def _engine(prop):
    return importlib.import_module(REGISTRY[prop][0])


def main(argv=None):
    ap = argparse.ArgumentParser()
    ap.add_argument("prop")
    ap.add_argument("--tier", default=os.environ.get("VERIF_TIER", "quick"))
    ap.add_argument("--replay")
    ap.add_argument("--runs", type=int)
    ap.add_argument("--budget", type=float)
    ap.add_argument("--no-shrink", action="store_true")
    ap.add_argument("--keep-going", action="store_true")
    ap.add_argument("--dump-digests")
    a = ap.parse_args(argv)
    prop = a.prop
    if prop not in REGISTRY:
        print("HARNESS-ERROR unknown property %s" % prop)
        return 2
    try:
        info = B.build(want_cnode=prop in ("C05", "C01"))
        if prop in ("C05", "C01") and os.path.exists(info["cnode"]):
            os.environ["VSIM_CNODE"] = info["cnode"]
    except Exception as e:  # noqa
        print("HARNESS-ERROR build failed: %s" % e)
        return 2
    K.ensure_env(info)
    B.activate(info)
    os.environ.pop("VSIM_SCRATCH", None)
    K.scratch_base()
    try:
        if a.replay:
            return replay(prop, a.replay, info)
        return check(prop, a, info)
    except K.HarnessError as e:
        print("HARNESS-ERROR %s" % e)
        traceback.print_exc()
        return 2
    except Exception as e:  # noqa
        print("HARNESS-ERROR %s: %s" % (type(e).__name__, e))
        traceback.print_exc()
        return 2
    finally:
        K.cleanup_scratch()


def replay(prop, path, info):
    with open(path) as f:
        body = json.load(f)
    eng_mod = body.get("engine") or REGISTRY[prop][0]
    r = K.run_plan_fresh(eng_mod, info, prop, body["plan"])
    if "harness_error" in r:
        print("HARNESS-ERROR replay: %s\n%s" % (r["harness_error"], r.get("tb", "")))
        return 2
    hit = [v for v in r["violations"] if v["prop"] == prop and v["cls"] == body["class"]]
    other = [v for v in r["violations"] if v["prop"] == prop and v["cls"] != body["class"]]
    if hit:
        print("REPLAY reproduced: %s %s: %s" % (prop, hit[0]["cls"], hit[0]["msg"]))
        print("VIOLATION property=%s replay=%s" % (prop, path))
        return 1
    if other:
        print("REPLAY produced a different violation class: %s (expected %s)" % (other[0]["cls"], body["class"]))
        print("VIOLATION property=%s replay=%s" % (prop, path))
        return 1
    print("REPLAY did not reproduce (%s) - digest %s" % (body["class"], r.get("digest")))
    return 0


def check(prop, a, info):
    eng_mod, level, nq, nt, bq, bt = REGISTRY[prop]
    eng = _engine(prop)
    tier = a.tier
    seed = int(os.environ.get("VERIF_SEED", "20261004"))
    n_runs = a.runs or (nt if tier == "thorough" else nq)
    budget = a.budget or (bt if tier == "thorough" else bq)
    print("check %s tier=%s seed=%d runs<=%d budget=%ds tree=%s" % (prop, tier, seed, n_runs, budget, info["hash"]))
    sys.stdout.flush()
    batch = K.Batch(prop, eng_mod, tier, seed, info, n_runs, budget).run()
    if batch.harness_errors:
        for h in batch.harness_errors[:3]:
            print("HARNESS-ERROR in run %s: %s\n%s" % (h["i"], h["harness_error"], h.get("tb", "")))
        return 2
    if not batch.results:
        print("HARNESS-ERROR no runs completed")
        return 2
    npk, bad = K.determinism_selfcheck(batch)
    if bad:
        print("HARNESS-NONDETERMINISM: %s" % bad)
        return 2
    if a.dump_digests:
        with open(a.dump_digests, "w") as f:
            json.dump({str(r["i"]): r["digest"] for r in batch.results}, f, sort_keys=True)
    known = K.load_known()
    mine, known_hits = [], {}
    for r in batch.results:
        for v in r["violations"]:
            if v["prop"] != prop:
                continue
            k = K.match_known(v, known)
            if k:
                known_hits.setdefault(k["id"], [k, 0, v, r])
                known_hits[k["id"]][1] += 1
            else:
                mine.append((r, v))
    for kid, (k, cnt, v, r) in sorted(known_hits.items()):
        print("KNOWN-FINDING: property=%s %s [%s] (%d occurrences this run; e.g. %s)" % (
            prop, k["description"], kid, cnt, v["msg"][:160]))
    extra = {
        "determinism_selfcheck": {"plans_rerun_in_fresh_process": npk, "digest_mismatches": len(bad)},
        "known_findings_hit": {kid: c for kid, (k, c, v, r) in known_hits.items()},
        "simulated_time": {
            "recorder_steps": K.aggregate(batch.results, "stats").get("recorder_steps", 0),
            "sample_time_seconds_recorded": K.aggregate(batch.results, "stats").get("sample_time_ms", 0) / 1000.0,
        },
    }
    rc = 0
    replay_paths = []
    if mine:
        # group by class; report the first of each class (minimised)
        seen = set()
        for r, v in mine:
            if v["cls"] in seen:
                continue
            seen.add(v["cls"])
            plan = v.get("plan") or r["plan"]
            if not a.no_shrink:
                try:
                    plan = K.shrink(eng, eng_mod, info, prop, plan, (prop, v["cls"]),
                                    budget_s=60 if tier == "quick" else 240)
                except Exception as e:  # noqa
                    print("shrink failed: %s" % e)
            path = K.write_replay(prop, eng_mod, plan, v, seed)
            replay_paths.append(path)
            print("violation class=%s run=%d: %s" % (v["cls"], r["i"], v["msg"]))
            print("VIOLATION property=%s replay=%s" % (prop, path))
            if len(seen) >= 5:
                break
        rc = 1
    extra["replay_files"] = replay_paths
    extra["violation_classes"] = sorted(set(v["cls"] for _, v in mine))
    path = K.write_evidence(prop, tier, seed, level, batch, extra, len(mine), RULES[prop],
                            getattr(eng, "COMPONENTS", {}), ASSUME_COMMON + getattr(eng, "ASSUMPTIONS", []))
    res = batch.results
    print("%s: runs=%d evaluations=%d distinct=%d nontrivial=%d wall=%.1fs violations=%d known=%d%s" % (
        prop, len(res), sum(r["evals"] for r in res), len(set(r["digest"] for r in res)),
        len(set(r["digest"] for r in res if r["nontrivial"])), batch.wall, len(mine),
        sum(c for _, c, _, _ in known_hits.values()), " (stopped early on budget)" if batch.stopped_early else ""))
    print("evidence: %s" % path)
    return rc


if __name__ == "__main__":
    sys.exit(main())
