"""Plan-level shrinking candidates for RF write plans."""
from __future__ import annotations

import copy


def _explicit(ops):
    out = []
    for op in ops:
        op = dict(op)
        if op["op"] == "w" and op.get("rel") is None and op.get("_rel") is not None:
            op["rel"] = op["_rel"]
        out.append(op)
    return out


def candidates_ops(ops, keep_invalid=True):
    """yield smaller op lists: drop chunks, drop single ops, halve lengths, drop blocks"""
    ops = _explicit(ops)
    n = len(ops)
    # drop halves / tails
    if n > 1:
        yield ops[: n // 2]
        yield ops[n // 2:]
        yield ops[:-1]
    for i in range(n):
        yield ops[:i] + ops[i + 1:]
    for i, op in enumerate(ops):
        if op["op"] == "w" and op["len"] > 1:
            for nl in (1, op["len"] // 2, op["len"] - 1):
                if 0 < nl < op["len"]:
                    o2 = dict(op, len=nl)
                    yield ops[:i] + [o2] + ops[i + 1:]
        if op["op"] == "wb" and len(op["g"]) > 1 and not op.get("invalid"):
            # drop last block
            g, b = op["g"][:-1], op["b"][:-1]
            o2 = dict(op, g=g, b=b, len=op["b"][-1])
            yield ops[:i] + [o2] + ops[i + 1:]
        if op["op"] == "wb" and len(op["g"]) == 1 and not op.get("invalid"):
            o2 = {"op": "w", "rel": op["g"][0], "_rel": op["g"][0], "len": op["len"], "salt": op["salt"]}
            yield ops[:i] + [o2] + ops[i + 1:]


def candidates_cfg(cfg):
    """yield simpler configurations (dicts)"""
    if cfg["nsub"] > 1:
        yield dict(cfg, nsub=1)
    if cfg["cstyle"] != "real":
        yield dict(cfg, cstyle="real")
    if cfg["compression"]:
        yield dict(cfg, compression=0)
    if cfg["checksum"]:
        yield dict(cfg, checksum=False)
    if cfg["order"] == ">":
        yield dict(cfg, order="<")
    if cfg["kind"] != "i2":
        yield dict(cfg, kind="i2", cstyle="real" if cfg["cstyle"] == "native" else cfg["cstyle"])


def candidates(plan, ops_key="ops"):
    for ops in candidates_ops(plan[ops_key]):
        p = copy.deepcopy(plan)
        p[ops_key] = ops
        yield p
    for c in candidates_cfg(plan["cfg"]):
        p = copy.deepcopy(plan)
        p["cfg"] = c
        yield p
