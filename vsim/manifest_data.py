"""Texts for MANIFEST.json (kept next to the code so they stay in step with it)."""

TECH = "deterministic simulation with fault injection: "

ENGINES = [
    {"name": "crashsim", "path": "vsim/engines/crashsim.py", "serves_properties": ["C02", "C09", "C10"],
     "kind_free_text": "recorder process single-stepped at every libc file-system call (LD_PRELOAD shim, lock-step "
                       "over a socketpair); simulator decides GO / FAIL(errno) / TORN / KILL per op and runs readers on "
                       "the live tree in the gaps; virtual wall clock"},
]

CHECKS = {
    "C02": {
        "engine": "crashsim", "level": "fault_enumeration", "design_ref": "DESIGN.md 5/C02, 3.2-3.4",
        "technique": TECH + "lock-step recorder, every FS-op boundary as crash state (+torn writes, real SIGKILL cross-check), seeded workloads",
        "text": "For each seeded recording (config x write sequence, swarm-generated) EVERY boundary between two "
                "file-system operations of the real writer is evaluated as a crash state: raw validity and content of "
                "every final-named file against an exact model, byte stability across later states, reader and listing "
                "on the state, tmp confinement, and the clean-close postcondition. Complete over crash points per "
                "workload, sampled over workloads.",
        "note": "HDF5 1.10.8 build of the tree; crash = process death (page cache survives); parked==killed equivalence "
                "is cross-checked by real SIGKILL on a third of the runs; model and value streams are the trusted base.",
    },
    "C09": {
        "engine": "crashsim", "level": "fault_enumeration", "design_ref": "DESIGN.md 5/C09",
        "technique": TECH + "lock-step recorder with reader passes (3 reader ages) at every FS-op boundary; exact visible-set oracle from the op trace",
        "text": "Reader passes (fresh reader, long-lived reader created as early as possible, two readers created at "
                "seeded boundaries) run on the live tree at EVERY op boundary of the recorder; each must not raise, must "
                "return exactly the samples of files whose finalizing rename has executed (ground truth from the op "
                "trace), and visibility must only grow. Free-running racing processes are not run (would not replay); "
                "the lock-step enumeration covers every state such a race can observe at system-call granularity.",
        "note": "same trusted base as C02; reader and writer are in different processes but the interleaving is "
                "decided by the simulator at libc-call granularity (no finer than a system call).",
    },
    "C10": {
        "engine": "crashsim", "level": "fault_enumeration", "design_ref": "DESIGN.md 5/C10",
        "technique": TECH + "single-fault schedules enumerated over the recorder's op list: position x {ENOSPC,EIO} x {once, same-kind persistent, device persistent}",
        "text": "A fault-free reference execution yields the op list; then one execution per fault schedule. After the "
                "fault every final-named file is inspected at every later boundary and at exit (readable, only written "
                "samples, pre-fault files byte-identical), accepted-but-unreadable samples require an error from the "
                "faulted call or the next write call, and no write may succeed after an error was reported.",
        "note": "a loss caused by a failure inside the final close() (no error channel, no later call) is exempt by the "
                "property's own wording; crashes inside libhdf5's shutdown after a failed H5Fclose are counted as a probe, "
                "not attributed to digital_rf; unlink faults are not reachable with a single fault.",
    },
}

_PENDING = "check not built yet in this round (planned in DESIGN.md section 5); not claimed until it exists"
NOT_APPLICABLE = {
    "C03": "pure integer function of (index, n, d): no state, I/O, schedule, clock or fault for a simulator to vary; "
           "deciding it is input enumeration or proof, i.e. another technique (DESIGN.md section 6)",
}
for _p in ("C01", "C04", "C05", "C06", "C07", "C08", "C11", "C12", "C13", "C14", "C15", "C16", "C17", "C18", "C19", "C20"):
    NOT_APPLICABLE.setdefault(_p, _PENDING)

NOTES = ("All checks: bin/check <id> [--tier quick|thorough] [--replay file]; exit 0 held / 1 VIOLATION / 2 harness "
         "error (never a pass). VERIF_SEED selects the seed (default 20261004). Findings policy: known_findings.json.")
