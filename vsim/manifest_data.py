"""Texts for MANIFEST.json (kept next to the code so they stay in step with it)."""

TECH = "deterministic simulation with fault injection: "

ENGINES = [
    {"name": "lssim", "path": "vsim/engines/lssim.py", "serves_properties": ["C14", "C18"],
     "kind_free_text": "tree generator + listing model; lazy listing single-stepped under a mutating readdir seam; transfer commands vs listing"},
    {"name": "evsim15", "path": "vsim/engines/evsim15.py", "serves_properties": ["C15"],
     "kind_free_text": "stub observer -> real DigitalRFEventHandler; differential oracle against the real listing"},
    {"name": "evsim16", "path": "vsim/engines/evsim16.py", "serves_properties": ["C16"],
     "kind_free_text": "stub observer with a faulty channel -> real ringbuffer handler; ledger oracle after every step"},
    {"name": "evsim17", "path": "vsim/engines/evsim17.py", "serves_properties": ["C17"],
     "kind_free_text": "lock-step node running real recorders and the real mirror handler set; crash states at every mirror FS op"},
    {"name": "mdsim", "path": "vsim/engines/mdsim.py", "serves_properties": ["C12", "C13", "C20"],
     "kind_free_text": "call-granularity simulation of Digital Metadata (+RF) writers and readers on one tree with a "
                       "virtual wall clock and seeded readdir order"},
    {"name": "rfsim", "path": "vsim/engines/rfsim.py",
     "serves_properties": ["C01", "C04", "C05", "C06", "C07", "C08", "C11", "C19"],
     "kind_free_text": "call-granularity session simulator: writer sessions as forked nodes parked at every API-call "
                       "boundary, readers/inspection/regeneration in the simulator under a seeded readdir permutation"},
    {"name": "crashsim", "path": "vsim/engines/crashsim.py", "serves_properties": ["C02", "C09", "C10"],
     "kind_free_text": "recorder process single-stepped at every libc file-system call (LD_PRELOAD shim, lock-step "
                       "over a socketpair); simulator decides GO / FAIL(errno) / TORN / KILL per op and runs readers on "
                       "the live tree in the gaps; virtual wall clock"},
]

_RFGEN = (" Generator reach beyond the obvious: start samples up to 2^64-2^40, rates from mHz to multi-GHz, recorder "
          "processes with seeded non-UTC TZ, channel paths containing 'tmp.', a prelude writer of other type/byte order "
          "in the same process, a companion channel of coarser subdirectory cadence written alternately by the same "
          "process, channel directories with 300+ character paths, early readers that poll the whole planned window.")

_RFNOTE = ("decided by seeded sampling of configuration x boundary index x history against an exact big-integer "
           "model; the simulator contributes session restarts, reader-object histories, readdir order and process "
           "isolation, not faults. HDF5 1.10.8 build of the tree; model and keyed-hash value streams are trusted.")

CHECKS = {
    "C01": {
        "engine": "rfsim", "level": "exploration", "design_ref": "DESIGN.md 5/C01",
        "technique": TECH + "fault-free configuration of the storage simulation: seeded write/read histories against an exact reference model, shuffled readdir, old and fresh readers",
        "text": "Every seeded history writes through the real C library (forked node) and reads every generated range "
                "back through old and fresh reader objects; returned blocks must equal the model's block decomposition "
                "bit for bit in every subchannel (values are a keyed hash of index/subchannel/component/call over the full "
                "bit range). Sampled, not exhaustive.",
        "note": _RFNOTE + " Every fourth run the same session is replayed through the public C API (cnode, ASan/UBSan) "
                "and that tree is read back against the model too.",
    },
    "C04": {
        "engine": "rfsim", "level": "exploration", "design_ref": "DESIGN.md 5/C04",
        "technique": TECH + "monitored layout invariant over every file of every simulated recording (exact integer oracle), starts and lengths snapped to file/subdirectory boundaries",
        "text": "After every simulated recording each data file is opened raw: every index it describes must lie in the "
                "window of its own name time (exact integers), in the right subdirectory, in exactly one file, and every "
                "model sample must be in the file file_of(k) names.",
        "note": _RFNOTE + _RFGEN,
    },
    "C05": {
        "engine": "rfsim", "level": "exploration", "design_ref": "DESIGN.md 5/C05",
        "technique": TECH + "histories of valid and invalid calls; recorder parked at every API-call boundary so the simulator fingerprints the tree before/after each rejected call",
        "text": "Invalid calls of all eight classes are interleaved with valid ones at seeded positions; each must raise, "
                "leave names/sizes/hashes/mtimes/inodes of the channel directory and all writer getters unchanged, and the "
                "following valid calls must return what a model that never saw the rejected call predicts.",
        "note": _RFNOTE + " Every second run replays the same history through the public C API with the ASan/UBSan driver "
                "cnode (paused after every call): C-level rejections (incl. gapped blocks in continuous mode and "
                "index_len = 0) must leave files and cursor untouched; any sanitizer report is a violation.",
    },
    "C06": {
        "engine": "rfsim", "level": "exploration", "design_ref": "DESIGN.md 5/C06",
        "technique": TECH + "every file of every simulated recording inspected raw; properties regenerated under shuffled readdir order",
        "text": "Structural index invariants, the 15 duplicated attributes, uuid / init timestamp / increasing sequence "
                "number per session, equality with drf_properties.h5, and regeneration of a deleted properties file from "
                "whatever file the shuffled glob picks, with identical read-back.",
        "note": _RFNOTE + " init_utc_timestamp is checked to within 1 s (the statement says 'carry', not 'exact'). Every "
                "fifth single-session run adds a restart tier (recorder SIGKILLed at a seeded boundary, new recorder started "
                "inside the period in progress) judged on the per-file clauses only." + _RFGEN,
    },
    "C07": {
        "engine": "rfsim", "level": "exploration", "design_ref": "DESIGN.md 5/C07",
        "technique": TECH + "continuous-mode recordings over all 70 (type, byte order, complex style) cells round-robin; fill slots compared bitwise in file byte order",
        "text": "Every existing file must expose exactly one block covering its whole window; never-written slots must "
                "hold the documented fill (any NaN for floats, most negative for signed, 0 for unsigned, both components); "
                "a file exists iff a slot was written; with compression/checksum the block structure must be gapped mode's.",
        "note": _RFNOTE + _RFGEN,
    },
    "C08": {
        "engine": "rfsim", "level": "exploration", "design_ref": "DESIGN.md 5/C08",
        "technique": TECH + "query histories on long-lived and fresh reader objects (cache state depends on history) against the model and the stated relations",
        "text": "30 seeded queries per recording on edges of files, blocks and gaps: block lengths vs read, split/merge, "
                "subchannel column, bounds, vector reads of length 1 / nsub / arbitrary (exact data or IOError, never "
                "partial), per-sample properties.",
        "note": _RFNOTE + _RFGEN,
    },
    "C11": {
        "engine": "rfsim", "level": "exploration", "design_ref": "DESIGN.md 5/C11",
        "technique": TECH + "multi-session, multi-directory histories (restarts later / earlier / inside recorded periods, single-parameter mismatches, writes into finalized periods)",
        "text": "2-4 writer sessions (separate processes) over 1-3 top-level directories; a mismatching session must be "
                "refused with the directory fingerprint unchanged; a write into a period finalized earlier must be refused, "
                "alter no finalized file, and leave the writer usable; one reader over all directories must return the union.",
        "note": _RFNOTE + " Refused writes are generated so that they start in an existing period (nothing of them can be "
                "written); compression/checksum are kept equal across sessions.",
    },
    "C19": {
        "engine": "rfsim", "level": "exploration", "design_ref": "DESIGN.md 5/C19",
        "technique": TECH + "writer getters compared with the session model after every call of every history, rejected and zero-length calls interleaved",
        "text": "Return value, next available, written, gaps, their sum, last file/dir (before and after close) after "
                "every call of seeded histories in all writer modes, including block writes that the extension splits.",
        "note": _RFNOTE + " States after a refused entry into a finalized period are excluded, as the property says.",
    },
    "C12": {
        "engine": "mdsim", "level": "exploration", "design_ref": "DESIGN.md 5/C12",
        "technique": TECH + "call-level histories of metadata writes, duplicate attempts, writer reopen and reads on old/new readers against an ordered-map model",
        "text": "Ascending write sequences in all three forms (incl. the documented length-N distribution rule and its "
                "traps), duplicate attempts, reopen, and reads with ranges/columns/fill methods on reader objects of "
                "different ages; every read must return exactly the model's items, ascending, values deep-equal; ffill "
                "adds exactly the latest item at or before the start; bounds are min/max.",
        "note": "decided by seeded sampling against the model; the simulator adds reader-age histories, readdir order and "
                "the clock. Field values keep one type per field only by chance - read_flatdict on inhomogeneous shapes is "
                "not judged. Batches whose first element is a duplicate burn the rest of the batch (not judged).",
    },
    "C13": {
        "engine": "mdsim", "level": "exploration", "design_ref": "DESIGN.md 5/C13",
        "technique": TECH + "monitored placement invariant after every metadata write of the simulated histories (exact integer oracle, raw h5py scan)",
        "text": "After every write every stored group is located with raw h5py: it must sit in <prefix>@T.h5 for the exact "
                "T, in the exact subdirectory, nowhere else, and reader.read(k,k) must return it. Indices are biased to "
                "k = ceil(j*cadence*n/d) and neighbours.",
        "note": "input-space sampling inside the simulation; the simulator adds nothing beyond reader-age histories - said plainly.",
    },
    "C20": {
        "engine": "mdsim", "level": "exploration", "design_ref": "DESIGN.md 5/C20",
        "technique": TECH + "call-granularity interleavings of metadata/RF writes with reader construction and queries, virtual clock jumps, whole-tree fingerprint around every read-only call",
        "text": "Right after each metadata write an older and a new reader must show it in bounds, range reads and "
                "read_latest; around EVERY read-only call (metadata reader, RF reader incl. read_metadata, lsdrf) the "
                "fingerprint of the whole tree (paths, sizes, SHA-256, mtime_ns, inode) must be unchanged, with the wall "
                "clock jumped by up to days so the metadata reader's age test is always true.",
        "note": "readers use default arguments (accept_empty=True); reader-side I/O faults are not injected (not in the "
                "quantifier); interleaving is at call granularity as the property states.",
    },
    "C14": {
        "engine": "lssim", "level": "exploration", "design_ref": "DESIGN.md 5/C14",
        "technique": TECH + "generated trees x flag/window combinations against a set-theoretic listing model, plus the lazy listing generator single-stepped while subdirectories vanish / empty / grow between enumeration and listing (readdir seam)",
        "text": "Static part: every query's result must contain exactly the model's files (each once, window inclusive on "
                "the name time, metadata forward-fill extra, properties per their own flags, nothing tmp/stray/near-miss), "
                "per-channel time order must be ascending (descending reversed), and reversing must not change the set. "
                "Concurrent part: ilsdrf advanced item by item while the simulator deletes, empties or extends a "
                "subdirectory right before it is listed: never raises, lists every in-window file that existed throughout "
                "once, nothing that no intermediate tree contains.",
        "note": "trees are empty files with the format's names; where the statement does not settle the forward-fill "
                "reading (a file exactly on start, RF-named files of both-kind directories, ties) both readings are "
                "accepted; a root that is itself a time-stamped subdirectory is not generated.",
    },
    "C18": {
        "engine": "lssim", "level": "exploration", "design_ref": "DESIGN.md 5/C18",
        "technique": TECH + "differential input sampling inside the simulator's tree generator: drf cp/mv/ln vs the equivalent listing on a pristine copy, real recordings as content",
        "text": "Destination file set == files the equivalent lsdrf selects (same relative paths); cp/mv byte-identical, "
                "ln same inode or a symlink resolving to the source; source fingerprint unchanged (cp, ln) or original minus "
                "transferred (mv); a reader on the destination equals a reader on the source over every transferred RF file.",
        "note": "said plainly: no schedule or fault occurs in this property; it is claimed because the harness exists and the "
                "oracle is exact (readdir order is the only simulated nondeterminism). The listing itself is C14's subject.",
    },
    "C15": {
        "engine": "evsim15", "level": "exploration", "design_ref": "DESIGN.md 5/C15",
        "technique": TECH + "stub observer feeding the real event handler with events derived from a real recorder's FS-op trace plus seeded noise over the path grammar; differential oracle = the real listing",
        "text": "For seeded handler configurations (16 include-flag combinations incl. defaults, windows at and around file "
                "times) every event's outcome (which callback, which path) must equal what the real lsdrf says about the "
                "same path placed inside channel directories, with the window compared exactly; the writer's finalizing "
                "rename (taken from real lock-step recordings) must arrive as a creation. The bounded grammar is sampled, "
                "not exhausted - exhaustive enumeration would be the neighbouring technique.",
        "note": "the filter is stateless by contract; the simulation contributes the realistic event source, agreement "
                "between two real components, and - every fifth run - a thread tier: the thread replaying existing files "
                "(dispatch without window test, as DigitalRFMirror.start() does) and the live-event thread run on one "
                "handler object under a seeded baton scheduler with the line events of watchdog_drf.py as pre-emption "
                "points; every dispatch must still get its schedule-independent verdict. Upper-case variants and paths "
                "deeper than the format's depth are outside the quantifier and not generated. watchdog Observer/inotify "
                "are stubbed; the handler is also built under seeded non-UTC process time zones.",
    },
    "C16": {
        "engine": "evsim16", "level": "exploration", "design_ref": "DESIGN.md 5/C16",
        "technique": TECH + "real ringbuffer handler behind a faulty event channel (drop, duplicate, reorder, stale), re-scans and batches interleaved; invariants after every step and at every os.remove",
        "text": "Seeded world scripts over several channels and kinds under all 7 limit combinations; after EVERY delivered "
                "event / re-scan / batch the handler's tracked set, queue order, record sizes and active_size are compared "
                "with a ledger of what it was told; every os.remove is judged when issued (tracked data file inside the "
                "tree, oldest of its channel among what is kept, some limit exceeded on the reported files); after a "
                "creation every limit holds again.",
        "note": "every 6th quick / 3rd thorough run is the thread tier: the existing-file scan thread and the event thread "
                "run as real threads under a baton scheduler (pre-emption at every traced line of ringbuffer.py and at "
                "every operation of the replaced _record_lock, decided by the PRNG); there only schedule-independent "
                "clauses are asserted (no exception/deadlock, deletions are tracked data files, oldest first, internal "
                "consistency at the end). Elsewhere dispatch is single-threaded; inside a batch the order in "
                "which the handler learns about files is not observable without hooks, so deletions there are judged "
                "against an upper bound of what it may believe (never stricter than the property). Files are plain files "
                "with the format's names.",
    },
    "C17": {
        "engine": "evsim17", "level": "fault_enumeration", "design_ref": "DESIGN.md 5/C17",
        "technique": TECH + "one lock-step node runs real recorders and the real mirror handler set; event histories with duplication/reordering/late events and seeded handler order; every FS-op boundary of the mirror is a crash state; EXDEV injected on cross-tree rename/link",
        "text": "At every boundary between two file-system operations of the mirror: each finalized source RF file has an "
                "intact copy in the source or under the destination (final or tmp. name), and every final-named destination "
                "file is a complete copy (RF: of the finalized file; metadata/properties: of some version of the source). "
                "After quiescence: every selected file whose events were delivered is at the same relative path with "
                "identical (latest) content, no tmp. left, nothing unselected, newest metadata file still in the source "
                "(move), and a reader on the destination returns what the mirrored files hold.",
        "note": "additional fault tiers: the publishing rename tmp.X -> X inside the destination fails once with EIO (20% of "
                "the runs); the mirror process is SIGKILLed at a seeded boundary and a new mirror process replays the existing "
                "files (real start()) and all events delivered so far (25%), with the invariants checked at every boundary of "
                "the second process too; in 30% of the runs some destination names are pre-occupied by stale files of equal "
                "size (or shorter), other content and older mtime, which must be replaced. "
                "Complete over the mirror's op boundaries per history, sampled over histories; metadata files are mirrored "
                "at call granularity of the metadata writer (never mid-append); events are derived from the model of the "
                "recording, the watchdog observer is stubbed. One known finding (KF-C17-1) is recorded, not repaired.",
    },
    "C02": {
        "engine": "crashsim", "level": "fault_enumeration", "design_ref": "DESIGN.md 5/C02, 3.2-3.4",
        "technique": TECH + "lock-step recorder, every FS-op boundary as crash state (+torn writes, real SIGKILL cross-check), seeded workloads",
        "text": "For each seeded recording (config x write sequence, swarm-generated) EVERY boundary between two "
                "file-system operations of the real writer is evaluated as a crash state: raw validity and content of "
                "every final-named file against an exact model, byte stability across later states, reader and listing "
                "on the state, tmp confinement, and the clean-close postcondition. Complete over crash points per "
                "workload, sampled over workloads.",
        "note": "every third run adds a restart tier: the recorder is SIGKILLed at a seeded boundary, a NEW recorder process "
                "starts inside the file period that was in progress, and every boundary of that process (and its close) "
                "is judged by the same oracle - a stale tmp. file must never surface under a final name. "
                "HDF5 1.10.8 build of the tree; crash = process death (page cache survives); parked==killed equivalence "
                "is cross-checked by real SIGKILL on a third of the runs; model and value streams are the trusted base.",
    },
    "C09": {
        "engine": "crashsim", "level": "fault_enumeration", "design_ref": "DESIGN.md 5/C09",
        "technique": TECH + "lock-step recorder with reader passes (3 reader ages) at every FS-op boundary; exact visible-set oracle from the op trace",
        "text": "Reader passes (fresh reader, long-lived reader created as early as possible, two readers created at "
                "seeded boundaries) run on the live tree at EVERY op boundary of the recorder; each must not raise, must "
                "return exactly the samples of files whose finalizing rename has executed (ground truth from the op "
                "trace), and visibility must only grow. Free-running racing processes are not run (would not replay); "
                "the lock-step enumeration covers every state such a race can observe at system-call granularity.",
        "note": "same trusted base as C02; reader and writer are in different processes but the interleaving is "
                "decided by the simulator at libc-call granularity (no finer than a system call). Every fourth run "
                "continues, under the same long-lived readers, with a second recorder process whose first write falls into "
                "the last finalized period (must be refused, published file unchanged) and whose later writes open later periods.",
    },
    "C10": {
        "engine": "crashsim", "level": "fault_enumeration", "design_ref": "DESIGN.md 5/C10",
        "technique": TECH + "single-fault schedules enumerated over the recorder's op list: position x {ENOSPC,EIO} x {once, same-kind persistent, device persistent}",
        "text": "A fault-free reference execution yields the op list; then one execution per fault schedule. After the "
                "fault every final-named file is inspected at every later boundary and at exit (readable, only written "
                "samples, pre-fault files byte-identical), accepted-but-unreadable samples require an error from the "
                "faulted call or the next write call, and no write may succeed after an error was reported.",
        "note": "a loss caused by a failure inside the final close() (no error channel, no later call) is exempt by the "
                "property's own wording; crashes inside libhdf5's shutdown after a failed H5Fclose are counted as a probe, "
                "not attributed to digital_rf; unlink faults are not reachable with a single fault.",
    },
}

_EXTRA = {
    "C01": " Inputs also as strided views, native complex arrays on complex-float channels and flat I/Q; range bounds also as numpy int64 / uint64 scalars; every fourth run is multi-session with an early reader that polls the planned window; readers run under seeded non-UTC time zones.",
    "C02": " Further tiers: restart after the kill (inside the period in progress, or at get_bounds()[1]+1 inside a published file - the write must be refused), no tmp. file after the restarted recorder's clean close, 64 KiB+ writes into un-chunked files, channel paths below a tmp.* directory.",
    "C05": " Invalid classes also cover negative indices, indices that overflow 64 bits with the start index, two-block overlaps at the start of a recording, 1-vs-k length mismatches and offsets past the end of flat I/Q input.",
    "C08": " One-reader sequences read / get_bounds / read, numpy-typed bounds, channels starting at index 0, the early reader's bounds in multi-session runs.",
    "C09": " Every reader age also polls the whole planned window at every boundary; a third of the second-session runs back-fill periods before the first session's data.",
    "C10": " Also judged: a pre-fault file that disappears, the published drf_properties.h5, 64 KiB+ writes (pwrite from inside H5Dwrite), channel paths below a tmp.* directory.",
    "C11": " Mismatch classes include the same rate as another fraction; writes that start in free periods and run into a finalized one are generated (refusal, untouched file, writer usable afterwards; the kept-or-dropped leading part is read off the tree); top-level directories named tmp.*; 300+ character paths.",
    "C12": " Process time zones, non-ASCII strings, deep nesting, back-fill and non-ascending batches, reads with the end omitted and reads naming a missing column are part of the histories.",
    "C13": " Rates up to 3.6e10/1001 Hz, process time zones, back-fill and non-ascending batches, readers created before the first write.",
    "C14": " Trees at the Unix epoch, in a time-stamp-named root, with tmp-prefixed metadata names, blank-containing channel names and suffixed look-alike subdirectories; bounds with sub-millisecond parts and in other zones.",
    "C16": " World script includes renames to names outside the format, symlinked data files, first reports by modification, files spread over several subdirectories.",
    "C17": " Also: stale files at the destination, a downstream consumer emptying the destination between rounds, the start-up listing as completeness oracle for start(), deletions of unselected source files.",
    "C18": " Also: destination pre-occupied (short / same-size files), source and destination reached through symbolic links, time identifiers in several forms, --only with nested channels, name-prefix and blank-containing channels.",
    "C19": " Every sixth run judges only the counters of a recording whose relative positions pass 2**63; 15% of the sessions end by an exception leaving a with-block; flat I/Q input.",
    "C20": " RF-reader metadata queries before the first metadata write, back-fill writes with old readers alive, reads naming a missing column after clock jumps. In 30% of the runs with an RF channel the metadata directory and writer are created only after a long-lived RF reader has been asked for metadata; that reader must report every later write.",
}
for _k, _v in _EXTRA.items():
    CHECKS[_k]["note"] = CHECKS[_k]["note"] + _v
for _k in CHECKS:
    CHECKS[_k]["note"] += " Which seeded changes this check catches: seeded/SUMMARY.md; what each miss added: DESIGN.md section 12."

_PENDING = "check not built yet in this round (planned in DESIGN.md section 5); not claimed until it exists"
NOT_APPLICABLE = {
    "C03": "pure integer function of (index, n, d): no state, I/O, schedule, clock or fault for a simulator to vary; "
           "deciding it is input enumeration or proof, i.e. another technique (DESIGN.md section 6)",
}

NOTES = ("All checks: bin/check <id> [--tier quick|thorough] [--replay file]; exit 0 held / 1 VIOLATION / 2 harness "
         "error (never a pass). VERIF_SEED selects the seed (default 20261004). Findings policy: known_findings.json.")
