"""Reference model of a Digital Metadata channel: ordered map index -> nested dict."""
from __future__ import annotations

import datetime
import os
import re

import numpy as np


class MdCfg:
    FIELDS = ("n", "d", "file_s", "subdir_s", "prefix")

    def __init__(self, **kw):
        self.n, self.d = int(kw["n"]), int(kw["d"])
        self.file_s, self.subdir_s = int(kw["file_s"]), int(kw["subdir_s"])
        self.prefix = kw.get("prefix", "metadata")

    def to_json(self):
        return {k: getattr(self, k) for k in self.FIELDS}

    # exact placement
    def sec(self, k):
        return (k * self.d) // self.n

    def file_T(self, k):
        return self.sec(k) // self.file_s * self.file_s

    def subdir_sec(self, T):
        return T // self.subdir_s * self.subdir_s

    def first_of(self, T):
        """first index whose floor second is >= T"""
        return -((-T * self.n) // self.d)

    def relpath(self, T):
        dt = datetime.datetime(1970, 1, 1) + datetime.timedelta(seconds=self.subdir_sec(T))
        return os.path.join(dt.strftime("%Y-%m-%dT%H-%M-%S"), "%s@%d.h5" % (self.prefix, T))


RE_MDFILE = re.compile(r"^(?P<name>.+)@(?P<secs>\d+)\.h5$")


# --------------------------------------------------------------------------------------
# values: specs (JSON) -> python/numpy objects handed to the writer, and their normal form
# --------------------------------------------------------------------------------------

def make_value(spec):
    t = spec["t"]
    if t == "int":
        return int(spec["v"])
    if t == "float":
        return float(spec["v"])
    if t == "str":
        return str(spec["v"])
    if t == "none":
        return None
    if t == "np":
        return np.dtype(spec["dtype"]).type(spec["v"])
    if t == "arr":
        rs = np.random.RandomState(spec["seed"])
        shape = tuple(spec["shape"])
        dt = np.dtype(spec["dtype"])
        if dt.kind == "f":
            return rs.standard_normal(shape).astype(dt)
        if dt.kind == "c":
            return (rs.standard_normal(shape) + 1j * rs.standard_normal(shape)).astype(dt)
        return rs.randint(0, 100, size=shape).astype(dt)
    if t == "list":
        return [make_value(v) for v in spec["v"]]
    if t == "dict":
        return {k: make_value(v) for k, v in spec["v"].items()}
    raise ValueError(t)


def normal(v):
    """what the reader is documented to hand back for a stored value"""
    if v is None:
        return ""
    if isinstance(v, dict):
        return {k: normal(x) for k, x in v.items()}
    if isinstance(v, np.generic):
        return v.item()
    if isinstance(v, bytes):
        return v.decode()
    if isinstance(v, (list, tuple)):
        a = np.asarray(v)
        if a.dtype == np.object_ or a.dtype.kind in "US":
            return [normal(x) for x in v]
        return a
    if isinstance(v, np.ndarray):
        if v.ndim == 0:
            return v.item()
        return v
    return v


def deep_equal(a, b):
    if isinstance(a, dict) or isinstance(b, dict):
        if not (isinstance(a, dict) and isinstance(b, dict)) or set(a) != set(b):
            return False
        return all(deep_equal(a[k], b[k]) for k in a)
    if isinstance(a, np.ndarray) or isinstance(b, np.ndarray):
        a2, b2 = np.asarray(a), np.asarray(b)
        if a2.shape != b2.shape or a2.dtype.kind != b2.dtype.kind:
            return False
        if a2.dtype.kind in "fc":
            return bool(np.array_equal(a2, b2, equal_nan=True)) and a2.dtype == b2.dtype
        return bool(np.array_equal(a2, b2))
    if isinstance(a, (list, tuple)) or isinstance(b, (list, tuple)):
        if not isinstance(a, (list, tuple)) or not isinstance(b, (list, tuple)) or len(a) != len(b):
            return False
        return all(deep_equal(x, y) for x, y in zip(a, b))
    if isinstance(a, float) and isinstance(b, float) and a != a and b != b:
        return True
    if isinstance(a, bool) != isinstance(b, bool):
        return False
    return type(a) == type(b) and a == b


def _flatten(d, prefix=""):
    for k, v in d.items():
        if isinstance(v, dict):
            for kk, vv in _flatten(v, prefix + k + "/"):
                yield kk, vv
        else:
            yield prefix + k, v


def _unflatten(items):
    out = {}
    for k, v in items:
        parts = k.split("/")
        cur = out
        for p in parts[:-1]:
            cur = cur.setdefault(p, {})
        cur[parts[-1]] = v
    return out


def distribute(data, N):
    """the documented dict-form rule -> list of N nested dicts"""
    per = [[] for _ in range(N)]
    for key, val in _flatten(data):
        spread = False
        if not isinstance(val, str):
            try:
                spread = len(val) == N
            except TypeError:
                spread = False
        for j in range(N):
            per[j].append((key, val[j] if spread else val))
    return [_unflatten(p) for p in per]


class MdModel:
    def __init__(self, cfg):
        self.cfg = cfg
        self.samples = {}  # index -> normal nested dict

    def add(self, k, d):
        self.samples[int(k)] = normal(d)

    def in_range(self, a, b):
        return [k for k in sorted(self.samples) if a <= k <= b]

    def latest_le(self, a):
        c = [k for k in self.samples if k <= a]
        return max(c) if c else None

    def bounds(self):
        if not self.samples:
            return None
        return min(self.samples), max(self.samples)

    def select(self, k, columns):
        d = self.samples[k]
        if columns is None:
            return d
        if isinstance(columns, str):
            return _get(d, columns)
        return {c: _get(d, c) for c in columns}


def _get(d, col):
    cur = d
    for p in col.split("/"):
        cur = cur[p]
    return cur


def scan_md_channel(mdir):
    """-> {index: [relpath,...]} over every <name>@<secs>.h5 below the channel dir (raw h5py)"""
    import h5py

    out = {}
    for sd in sorted(os.listdir(mdir)):
        p = os.path.join(mdir, sd)
        if not os.path.isdir(p):
            continue
        for fn in sorted(os.listdir(p)):
            if RE_MDFILE.match(fn) and not fn.startswith("tmp."):
                with h5py.File(os.path.join(p, fn), "r") as f:
                    for g in f.keys():
                        out.setdefault(int(g), []).append(os.path.join(sd, fn))
    return out
