"""Simulator kernel: lock-step nodes, seeded batches, evidence, replay, shrinking."""
from __future__ import annotations

import concurrent.futures as cf
import ctypes
import errno as _errno
import faulthandler
import hashlib
import json
import multiprocessing
import os
import random
import shutil
import signal
import socket
import sys
import time
import traceback

from . import build as _build

VERIF = _build.VERIF
EVIDENCE_DIR = os.path.join(VERIF, "evidence")
REPLAY_DIR = os.path.join(VERIF, "replays")
KNOWN_FINDINGS = os.path.join(VERIF, "known_findings.json")

CLOCK0_NS = 1_600_000_000 * 10**9  # virtual wall clock origin


class HarnessError(BaseException):
    """Not an Exception on purpose: broad `except Exception` clauses in oracles must not swallow it."""


# --------------------------------------------------------------------------------------
# process set-up
# --------------------------------------------------------------------------------------

def ensure_env(info):
    """Re-exec once so that the shim is preloaded and hashing is fixed."""
    want = info["shim"]
    hs = os.environ.get("VSIM_HASHSEED", "0")
    if os.environ.get("VSIM_SHIM") == want and os.environ.get("PYTHONHASHSEED") == hs:
        return
    env = dict(os.environ)
    env["VSIM_SHIM"] = want
    env["LD_PRELOAD"] = want
    env["PYTHONHASHSEED"] = hs
    env["HDF5_USE_FILE_LOCKING"] = "FALSE"
    env["OMP_NUM_THREADS"] = "1"
    env["OPENBLAS_NUM_THREADS"] = "1"
    env["PYTHONDONTWRITEBYTECODE"] = "1"
    sys.stdout.flush()
    sys.stderr.flush()
    os.execve(sys.executable, [sys.executable] + sys.argv, env)


_shim = None


def shim():
    global _shim
    if _shim is None:
        p = os.environ.get("VSIM_SHIM")
        if not p:
            raise HarnessError("shim not preloaded")
        _shim = ctypes.CDLL(p)
        _shim.vsim_arm.argtypes = [ctypes.c_int, ctypes.c_char_p, ctypes.c_longlong]
        _shim.vsim_arm.restype = None
        _shim.vsim_sync.argtypes = [ctypes.c_char_p]
        _shim.vsim_sync.restype = None
    return _shim


_scratch_base = None


def scratch_base():
    global _scratch_base
    if _scratch_base is None:
        env = os.environ.get("VSIM_SCRATCH")
        if env and os.path.isdir(env):
            _scratch_base = env
        else:
            root = "/dev/shm" if os.path.isdir("/dev/shm") and os.access("/dev/shm", os.W_OK) else "/tmp"
            _scratch_base = os.path.join(root, "vsim-%d" % os.getpid())
            os.makedirs(_scratch_base, exist_ok=True)
            os.environ["VSIM_SCRATCH"] = _scratch_base  # workers share (and the main process removes) it
    return _scratch_base


def new_scratch(tag):
    p = os.path.join(scratch_base(), tag)
    shutil.rmtree(p, ignore_errors=True)
    os.makedirs(p)
    return p


def cleanup_scratch():
    global _scratch_base
    if os.environ.get("VSIM_KEEP"):
        return
    if _scratch_base:
        shutil.rmtree(_scratch_base, ignore_errors=True)
        _scratch_base = None
        os.environ.pop("VSIM_SCRATCH", None)


def derive_seed(*parts):
    h = hashlib.sha256(repr(parts).encode()).digest()
    return int.from_bytes(h[:8], "big")


# --------------------------------------------------------------------------------------
# lock-step node
# --------------------------------------------------------------------------------------

class Op:
    __slots__ = ("seq", "kind", "nbytes", "off", "flags", "p1", "p2")

    def __init__(self, seq, kind, nbytes, off, flags, p1, p2):
        self.seq, self.kind, self.nbytes, self.off, self.flags, self.p1, self.p2 = (
            seq, kind, nbytes, off, flags, p1, p2)

    def sig(self):
        return "%s %s%s" % (self.kind, path_class(self.p1), ("->" + path_class(self.p2)) if self.p2 else "")

    def __repr__(self):
        return "Op(%d %s %s %s n=%d off=%d)" % (self.seq, self.kind, self.p1, self.p2, self.nbytes, self.off)


def path_class(p):
    """abstract a relative path so traces are comparable (numbers kept: deterministic anyway)"""
    return p


class Node:
    """A forked process executing child_fn(report) under the armed shim, single-stepped."""

    def __init__(self, prefix, child_fn, clock_ns=CLOCK0_NS, log_path=None, timeout=60.0):
        self.prefix = prefix
        a, b = socket.socketpair(socket.AF_UNIX, socket.SOCK_STREAM)
        sys.stdout.flush()
        sys.stderr.flush()
        pid = os.fork()
        if pid == 0:
            try:
                a.close()
                signal.alarm(0)
                fd = b.fileno()
                os.set_inheritable(fd, True)
                lp = log_path or os.devnull
                lf = os.open(lp, os.O_WRONLY | os.O_CREAT | os.O_APPEND, 0o644)
                os.dup2(lf, 1)
                os.dup2(lf, 2)

                def report(obj):
                    data = ("A " + json.dumps(obj) + "\n").encode()
                    os.write(fd, data)

                report.sync = lambda tag: shim().vsim_sync(tag.encode())

                shim().vsim_arm(fd, prefix.encode(), clock_ns)
                try:
                    child_fn(report)
                    report({"ev": "done"})
                except BaseException as e:  # noqa
                    try:
                        report({"ev": "child_exception", "type": type(e).__name__, "msg": str(e)[:300],
                                "tb": traceback.format_exc()[-1500:]})
                    except Exception:
                        pass
                try:
                    # what a normally exiting process would do at library shutdown
                    ctypes.CDLL("libhdf5_serial.so.103").H5close()
                except Exception:
                    pass
            finally:
                os._exit(0)
        b.close()
        self.pid = pid
        self.sock = a
        self.sock.settimeout(timeout)
        self.buf = b""
        self.clock_ns = clock_ns
        self.exit_status = None
        self.nops = 0

    def _readline(self):
        while b"\n" not in self.buf:
            try:
                chunk = self.sock.recv(65536)
            except socket.timeout:
                self.kill()
                raise HarnessError("node timed out")
            if not chunk:
                return None
            self.buf += chunk
        line, self.buf = self.buf.split(b"\n", 1)
        return line.decode()

    def step(self):
        """-> Op (needs reply) | dict (API report) | None (node exited)"""
        line = self._readline()
        if line is None:
            self._reap()
            return None
        if line.startswith("A "):
            return json.loads(line[2:])
        if line.startswith("O "):
            head, _, paths = line.partition("\t")
            parts = head.split(" ", 6)
            p1 = parts[6] if len(parts) > 6 else ""
            self.nops += 1
            return Op(int(parts[1]), parts[2], int(parts[3]), int(parts[4]), int(parts[5]), p1, paths)
        raise HarnessError("bad node line %r" % line)

    def go(self):
        self.clock_ns += 1_000_000  # 1 ms of virtual wall time per file-system operation
        self.sock.sendall(b"G %d\n" % self.clock_ns)

    def fail(self, err):
        self.clock_ns += 1_000_000
        self.sock.sendall(b"F %d %d\n" % (err, self.clock_ns))

    def torn(self, nbytes):
        self.clock_ns += 1_000_000
        self.sock.sendall(b"T %d %d\n" % (nbytes, self.clock_ns))

    def jump_clock(self, delta_ns):
        self.clock_ns += delta_ns

    def kill(self):
        if self.exit_status is None:
            try:
                os.kill(self.pid, signal.SIGKILL)
            except ProcessLookupError:
                pass
            self._reap()

    def _reap(self):
        if self.exit_status is None:
            try:
                _, st = os.waitpid(self.pid, 0)
            except ChildProcessError:
                st = 0
            self.exit_status = st
            try:
                self.sock.close()
            except Exception:
                pass

    def died_of_signal(self):
        st = self.exit_status
        if st is None:
            return None
        if os.WIFSIGNALED(st):
            return os.WTERMSIG(st)
        if os.WIFEXITED(st) and os.WEXITSTATUS(st) != 0:
            return -os.WEXITSTATUS(st)
        return None


def run_inline(prefix, child_fn):
    """Run child_fn in a forked node with every op allowed; returns (reports, ops)."""
    node = Node(prefix, child_fn)
    reports, ops = [], []
    while True:
        ev = node.step()
        if ev is None:
            break
        if isinstance(ev, Op):
            ops.append(ev)
            node.go()
        else:
            reports.append(ev)
    return reports, ops, node


# --------------------------------------------------------------------------------------
# trees
# --------------------------------------------------------------------------------------

def snapshot(src, dst):
    shutil.copytree(src, dst, symlinks=True)
    return dst


def file_sha(path):
    h = hashlib.sha256()
    with open(path, "rb") as f:
        while True:
            b = f.read(1 << 20)
            if not b:
                break
            h.update(b)
    return h.hexdigest()


def fingerprint(root, content=True, meta=False):
    """{relpath: (type, size, sha|None, [mtime_ns, ino])} - never includes atime"""
    out = {}
    for dp, dns, fns in os.walk(root):
        dns.sort()
        for name in sorted(dns):
            p = os.path.join(dp, name)
            st = os.lstat(p)
            ent = ["d", 0, None]
            if meta:
                ent += [st.st_mtime_ns, st.st_ino]
            out[os.path.relpath(p, root)] = tuple(ent)
        for name in sorted(fns):
            p = os.path.join(dp, name)
            st = os.lstat(p)
            if os.path.islink(p):
                ent = ["l", 0, os.readlink(p)]
            else:
                ent = ["f", st.st_size, file_sha(p) if content else None]
            if meta:
                ent += [st.st_mtime_ns, st.st_ino]
            out[os.path.relpath(p, root)] = tuple(ent)
    return out


def fp_diff(a, b, limit=5):
    d = []
    for k in sorted(set(a) | set(b)):
        if a.get(k) != b.get(k):
            d.append("%s: %s -> %s" % (k, a.get(k), b.get(k)))
            if len(d) >= limit:
                break
    return d


# --------------------------------------------------------------------------------------
# results
# --------------------------------------------------------------------------------------

class Trace:
    def __init__(self):
        self.h = hashlib.sha256()
        self.n = 0
        self.tail = []

    def add(self, *items):
        s = "|".join(str(i) for i in items)
        self.h.update(s.encode())
        self.h.update(b"\n")
        self.n += 1
        if len(self.tail) < 400:
            self.tail.append(s)

    def digest(self):
        return self.h.hexdigest()[:24]


class RunResult:
    def __init__(self):
        self.trace = Trace()
        self.violations = []   # dicts: prop, cls, msg, sig
        self.probes = {}
        self.faults = {}
        self.stats = {}
        self.nontrivial = False
        self.evals = 1         # executions inside this run (derived fault / crash plans)
        self.cross = {}        # clauses of other properties that fired

    def probe(self, name, k=1):
        self.probes[name] = self.probes.get(name, 0) + k

    def fault(self, name, k=1):
        self.faults[name] = self.faults.get(name, 0) + k

    def stat(self, name, k=1):
        self.stats[name] = self.stats.get(name, 0) + k

    def violate(self, prop, cls, msg, **sig):
        self.violations.append({"prop": prop, "cls": cls, "msg": str(msg)[:600], "sig": sig})
        self.trace.add("VIOLATION", prop, cls)

    def to_json(self):
        return {
            "digest": self.trace.digest(), "violations": self.violations, "probes": self.probes,
            "faults": self.faults, "stats": self.stats, "nontrivial": self.nontrivial,
            "evals": self.evals, "cross": self.cross,
        }


# --------------------------------------------------------------------------------------
# known findings
# --------------------------------------------------------------------------------------

def load_known():
    if not os.path.exists(KNOWN_FINDINGS):
        return []
    with open(KNOWN_FINDINGS) as f:
        return json.load(f).get("findings", [])


def match_known(v, known):
    for k in known:
        if k.get("property") != v["prop"] or k.get("class") != v["cls"]:
            continue
        ok = True
        for key, val in (k.get("where") or {}).items():
            if v["sig"].get(key) != val:
                ok = False
                break
        if ok:
            return k
    return None


# --------------------------------------------------------------------------------------
# batch driver
# --------------------------------------------------------------------------------------

_ENGINE = None


def _worker_init(engine_mod, info):
    global _ENGINE
    _build.activate(info)
    import importlib

    _ENGINE = importlib.import_module(engine_mod)
    faulthandler.enable()


def _alarm(signum, frame):
    raise HarnessError("work item wall-clock limit hit")


def _work(args):
    prop, tier, seed, i, plan, limit = args
    signal.signal(signal.SIGALRM, _alarm)
    signal.setitimer(signal.ITIMER_REAL, limit, 5)  # fires again every 5 s should it be swallowed
    t0 = time.time()
    try:
        if plan is None:
            rng = random.Random(derive_seed(seed, prop, i))
            plan = _ENGINE.gen_plan(prop, tier, rng, i)
        res = _ENGINE.run_plan(prop, plan)
        out = res.to_json()
        out["plan"] = plan
        out["i"] = i
        out["wall"] = time.time() - t0
        return out
    except HarnessError as e:
        signal.setitimer(signal.ITIMER_REAL, 0)
        return {"i": i, "harness_error": "%s" % e, "plan": plan, "tb": traceback.format_exc()}
    except Exception as e:  # noqa
        return {"i": i, "harness_error": "%s: %s" % (type(e).__name__, e), "plan": plan,
                "tb": traceback.format_exc()}
    finally:
        signal.setitimer(signal.ITIMER_REAL, 0)


def run_plan_fresh(engine_mod, info, prop, plan, limit=600):
    """execute one plan in a fresh forked worker (used by replay and shrinking)"""
    ctx = multiprocessing.get_context("fork")
    with cf.ProcessPoolExecutor(1, mp_context=ctx, initializer=_worker_init,
                                initargs=(engine_mod, info)) as ex:
        return ex.submit(_work, (prop, "replay", 0, 0, plan, limit)).result()


class Batch:
    """Runs N seeded plans of one engine for one property and aggregates evidence."""

    def __init__(self, prop, engine_mod, tier, seed, info, n_runs, budget_s, jobs=None,
                 item_limit=300):
        self.prop, self.engine_mod, self.tier, self.seed, self.info = prop, engine_mod, tier, seed, info
        self.n_runs, self.budget_s = n_runs, budget_s
        self.jobs = jobs or int(os.environ.get("VSIM_JOBS", "0")) or min(16, os.cpu_count() or 4)
        self.item_limit = item_limit
        self.results = []
        self.harness_errors = []
        self.t0 = time.time()

    def run(self):
        ctx = multiprocessing.get_context("fork")
        deadline = self.t0 + self.budget_s
        pending = set()
        nxt = 0
        stopped_early = False
        with cf.ProcessPoolExecutor(self.jobs, mp_context=ctx, initializer=_worker_init,
                                    initargs=(self.engine_mod, self.info)) as ex:
            try:
                while nxt < self.n_runs or pending:
                    while nxt < self.n_runs and len(pending) < self.jobs * 2:
                        if time.time() > deadline:
                            stopped_early = True
                            nxt = self.n_runs
                            break
                        pending.add(ex.submit(_work, (self.prop, self.tier, self.seed, nxt, None,
                                                      self.item_limit)))
                        nxt += 1
                    if not pending:
                        break
                    done, pending = cf.wait(pending, timeout=self.item_limit + 60,
                                            return_when=cf.FIRST_COMPLETED)
                    if not done:
                        raise HarnessError("worker pool stalled")
                    for f in done:
                        r = f.result()
                        if "harness_error" in r:
                            self.harness_errors.append(r)
                        else:
                            self.results.append(r)
            except cf.process.BrokenProcessPool as e:
                raise HarnessError("worker died: %s" % e)
        self.results.sort(key=lambda r: r["i"])
        self.stopped_early = stopped_early
        self.wall = time.time() - self.t0
        return self


def determinism_selfcheck(batch, k=2):
    """re-run k plans of the batch in fresh workers; digests must match."""
    picks = [r for r in batch.results if not r["violations"]][:k]
    bad = []
    for r in picks:
        r2 = run_plan_fresh(batch.engine_mod, batch.info, batch.prop, r["plan"])
        if r2.get("digest") != r["digest"]:
            bad.append((r["i"], r["digest"], r2.get("digest"), r2.get("harness_error")))
    return len(picks), bad


# --------------------------------------------------------------------------------------
# shrinking (delta debugging on the plan)
# --------------------------------------------------------------------------------------

def shrink(engine, engine_mod, info, prop, plan, target, budget_s=90):
    """target = (prop, cls). Accept a candidate only if the same class recurs."""
    t_end = time.time() + budget_s
    best = plan

    def fails(p):
        r = run_plan_fresh(engine_mod, info, prop, p, limit=120)
        if "harness_error" in r:
            return False
        return any((v["prop"], v["cls"]) == target for v in r["violations"])

    improved = True
    rounds = 0
    while improved and time.time() < t_end:
        improved = False
        rounds += 1
        for cand in engine.shrink_candidates(best):
            if time.time() > t_end:
                break
            try:
                ok = fails(cand)
            except Exception:
                ok = False
            if ok:
                best = cand
                improved = True
                break
    return best


# --------------------------------------------------------------------------------------
# reporting
# --------------------------------------------------------------------------------------

def write_replay(prop, engine_mod, plan, violation, seed):
    os.makedirs(REPLAY_DIR, exist_ok=True)
    body = {"property": prop, "engine": engine_mod, "class": violation["cls"],
            "message": violation["msg"], "sig": violation["sig"], "seed": seed, "plan": plan}
    dg = hashlib.sha256(json.dumps(body["plan"], sort_keys=True).encode()).hexdigest()[:12]
    path = os.path.join(REPLAY_DIR, "%s-%s-%s.json" % (prop, violation["cls"], dg))
    with open(path, "w") as f:
        json.dump(body, f, indent=1, sort_keys=True)
    return path


def abbreviate(obj, maxlist=8, maxstr=200):
    if isinstance(obj, dict):
        return {k: abbreviate(v, maxlist, maxstr) for k, v in obj.items()}
    if isinstance(obj, list):
        if len(obj) > maxlist:
            return [abbreviate(v, maxlist, maxstr) for v in obj[:maxlist]] + ["... %d more" % (len(obj) - maxlist)]
        return [abbreviate(v, maxlist, maxstr) for v in obj]
    if isinstance(obj, str) and len(obj) > maxstr:
        return obj[:maxstr] + "..."
    return obj


def aggregate(results, key):
    out = {}
    for r in results:
        for k, v in r.get(key, {}).items():
            out[k] = out.get(k, 0) + v
    return dict(sorted(out.items()))


def write_evidence(prop, tier, seed, level, batch, extra, violations_count, rule, components,
                   assumptions):
    os.makedirs(EVIDENCE_DIR, exist_ok=True)
    res = batch.results
    digests = set(r["digest"] for r in res)
    nontriv = set(r["digest"] for r in res if r["nontrivial"])
    evals = sum(r["evals"] for r in res)
    wall = max(batch.wall, 1e-9)
    probes = aggregate(res, "probes")
    cov = {
        "evaluations": int(evals),
        "distinct_nontrivial": len(nontriv),
        "rule": rule,
        "samples": [abbreviate(r["plan"]) for r in res[:3]],
        "simulated_runs": len(res),
        "runs_per_hour": round(len(res) / wall * 3600),
        "evaluations_per_hour": round(evals / wall * 3600),
        "distinct_trace_digests": len(digests),
        "faults_injected": aggregate(res, "faults"),
        "probes": probes,
        "probes_stuck_at_zero": sorted(k for k, v in probes.items() if v == 0),
        "stats": aggregate(res, "stats"),
        "cross_observations": aggregate(res, "cross"),
        "components": components,
        "harness_errors": len(batch.harness_errors),
        "stopped_early_on_budget": bool(getattr(batch, "stopped_early", False)),
        "jobs": batch.jobs,
        "tree_hash": batch.info["hash"],
    }
    cov.update(extra or {})
    ev = {
        "property_id": prop, "tier": tier, "seed": int(seed), "level": level, "coverage": cov,
        "assumptions": assumptions, "wall_s": round(batch.wall, 2), "violations": int(violations_count),
    }
    path = os.path.join(EVIDENCE_DIR, "%s.json" % prop)
    tmp = path + ".tmp"
    with open(tmp, "w") as f:
        json.dump(ev, f, indent=1, sort_keys=True, default=str)
    os.replace(tmp, path)
    return path


ERRNO = {"ENOSPC": _errno.ENOSPC, "EIO": _errno.EIO, "EXDEV": _errno.EXDEV, "EACCES": _errno.EACCES}
