/* vsim_shim.so - LD_PRELOAD interposer: the file-system / clock seam of the simulator.
 *
 * Inert until vsim_arm(ctl_fd, prefix, clock_ns) is called (via ctypes, in a forked node).
 * When armed, every mutating libc call whose path lies under <prefix> (or whose fd was
 * opened there) is announced on ctl_fd and the node is parked until the simulator
 * answers with a verdict:
 *     G <clock_ns>            perform the call
 *     F <errno> <clock_ns>    do not perform it, fail with errno
 *     T <nbytes> <clock_ns>   (write kinds) perform only the first nbytes, then park again
 *                             with kind "torn" (the simulator then snapshots / kills)
 * time(), gettimeofday(), clock_gettime(CLOCK_REALTIME) return the virtual clock carried by
 * the last verdict.  Read-only calls pass through un-announced.
 */
#define _GNU_SOURCE
#include <dlfcn.h>
#include <errno.h>
#include <fcntl.h>
#include <pthread.h>
#include <stdarg.h>
#include <stdio.h>
#include <stdlib.h>
#include <string.h>
#include <sys/stat.h>
#include <sys/time.h>
#include <sys/types.h>
#include <time.h>
#include <unistd.h>

#define MAXFD 4096
#define PLEN 1024

static int armed = 0;
static int ctl = -1;
static char prefix[PLEN];
static size_t plen = 0;
static long long vclock_ns = 0;
static unsigned long long seqno = 0;
static pthread_mutex_t mu = PTHREAD_MUTEX_INITIALIZER;
static struct { int tracked; char path[PLEN]; } fdt[MAXFD];

#define REAL(name) static __typeof__(name) *real_##name = NULL; \
	if (!real_##name) real_##name = dlsym(RTLD_NEXT, #name)

static ssize_t (*real_write_p)(int, const void *, size_t) = NULL;
static ssize_t (*real_read_p)(int, void *, size_t) = NULL;

static void init_rw(void)
{
	if (!real_write_p) real_write_p = dlsym(RTLD_NEXT, "write");
	if (!real_read_p) real_read_p = dlsym(RTLD_NEXT, "read");
}

static int under(const char *path)
{
	if (!armed || !path) return 0;
	return strncmp(path, prefix, plen) == 0;
}

static const char *rel(const char *path)
{
	const char *r = path + plen;
	while (*r == '/') r++;
	return r;
}

static void die(const char *why)
{
	init_rw();
	real_write_p(2, "vsim_shim: ", 11);
	real_write_p(2, why, strlen(why));
	real_write_p(2, "\n", 1);
	_exit(97);
}

/* verdict codes */
#define V_GO 0
#define V_FAIL 1
#define V_TORN 2

static int park(const char *kind, const char *p1, const char *p2, long long nbytes,
		long long off, long long flags, long long *arg)
{
	char buf[3 * PLEN];
	char rep[128];
	int n, i = 0;
	init_rw();
	pthread_mutex_lock(&mu);
	seqno++;
	n = snprintf(buf, sizeof buf, "O %llu %s %lld %lld %lld %s\t%s\n", seqno, kind, nbytes, off,
		     flags, p1 ? p1 : "", p2 ? p2 : "");
	{
		int w = 0;
		while (w < n) {
			ssize_t r = real_write_p(ctl, buf + w, n - w);
			if (r < 0) { if (errno == EINTR) continue; die("ctl write failed"); }
			w += r;
		}
	}
	for (;;) {
		char c;
		ssize_t r = real_read_p(ctl, &c, 1);
		if (r < 0) { if (errno == EINTR) continue; die("ctl read failed"); }
		if (r == 0) _exit(98); /* simulator went away */
		if (c == '\n') break;
		if (i < (int)sizeof rep - 1) rep[i++] = c;
	}
	rep[i] = 0;
	{
		int v = V_GO;
		long long a = 0, clk = 0;
		if (rep[0] == 'G') { sscanf(rep + 1, "%lld", &clk); v = V_GO; }
		else if (rep[0] == 'F') { sscanf(rep + 1, "%lld %lld", &a, &clk); v = V_FAIL; }
		else if (rep[0] == 'T') { sscanf(rep + 1, "%lld %lld", &a, &clk); v = V_TORN; }
		else die("bad verdict");
		if (clk > 0) vclock_ns = clk;
		if (arg) *arg = a;
		pthread_mutex_unlock(&mu);
		return v;
	}
}

/* ---- control entry points (ctypes) ---- */
void vsim_arm(int ctl_fd, const char *pfx, long long clock_ns)
{
	memset(fdt, 0, sizeof fdt);
	ctl = ctl_fd;
	strncpy(prefix, pfx, PLEN - 1);
	plen = strlen(prefix);
	vclock_ns = clock_ns;
	seqno = 0;
	armed = 1;
}

void vsim_disarm(void) { armed = 0; }

/* explicit synchronisation point: park the node so that the simulator can inspect the tree */
void vsim_sync(const char *tag)
{
	if (armed) park("sync", tag, NULL, 0, 0, 0, NULL);
}
int vsim_is_loaded(void) { return 1; }

/* ---- open family ---- */
static int do_open(int (*fn)(const char *, int, ...), const char *path, int flags, mode_t mode)
{
	int fd;
	int mut = (flags & (O_WRONLY | O_RDWR | O_CREAT | O_TRUNC | O_APPEND)) != 0;
	if (under(path) && mut) {
		long long a = 0;
		int creates = (flags & O_CREAT) != 0;
		int v = park(creates ? "create" : "openw", rel(path), NULL, 0, 0, flags, &a);
		if (v == V_FAIL) { errno = (int)a; return -1; }
		fd = fn(path, flags, mode);
		if (fd >= 0 && fd < MAXFD) {
			fdt[fd].tracked = 1;
			strncpy(fdt[fd].path, rel(path), PLEN - 1);
			fdt[fd].path[PLEN - 1] = 0;
		}
		return fd;
	}
	fd = fn(path, flags, mode);
	if (fd >= 0 && fd < MAXFD) fdt[fd].tracked = 0;
	return fd;
}

int open(const char *path, int flags, ...)
{
	mode_t mode = 0;
	REAL(open);
	if (flags & (O_CREAT | O_TMPFILE)) { va_list ap; va_start(ap, flags); mode = va_arg(ap, mode_t); va_end(ap); }
	if (!armed) return real_open(path, flags, mode);
	return do_open(real_open, path, flags, mode);
}

int open64(const char *path, int flags, ...)
{
	mode_t mode = 0;
	REAL(open64);
	if (flags & (O_CREAT | O_TMPFILE)) { va_list ap; va_start(ap, flags); mode = va_arg(ap, mode_t); va_end(ap); }
	if (!armed) return real_open64(path, flags, mode);
	return do_open(real_open64, path, flags, mode);
}

int close(int fd)
{
	REAL(close);
	if (armed && fd >= 0 && fd < MAXFD && fdt[fd].tracked) {
		long long a = 0;
		int v = park("close", fdt[fd].path, NULL, 0, 0, fd, &a);
		fdt[fd].tracked = 0;
		if (v == V_FAIL) { real_close(fd); errno = (int)a; return -1; }
	}
	return real_close(fd);
}

/* ---- write family ---- */
static int pre_write(int fd, const char *kind, size_t n, long long off, long long *torn)
{
	return park(kind, fdt[fd].path, NULL, (long long)n, off, fd, torn);
}

ssize_t write(int fd, const void *buf, size_t n)
{
	init_rw();
	if (armed && fd >= 0 && fd < MAXFD && fdt[fd].tracked) {
		long long a = 0;
		int v = pre_write(fd, "write", n, -1, &a);
		if (v == V_FAIL) { errno = (int)a; return -1; }
		if (v == V_TORN) {
			if (a > 0) real_write_p(fd, buf, (size_t)a);
			park("torn", fdt[fd].path, NULL, a, -1, fd, NULL);
			return (ssize_t)a;
		}
	}
	return real_write_p(fd, buf, n);
}

ssize_t pwrite(int fd, const void *buf, size_t n, off_t off)
{
	REAL(pwrite);
	if (armed && fd >= 0 && fd < MAXFD && fdt[fd].tracked) {
		long long a = 0;
		int v = pre_write(fd, "pwrite", n, (long long)off, &a);
		if (v == V_FAIL) { errno = (int)a; return -1; }
		if (v == V_TORN) {
			if (a > 0) real_pwrite(fd, buf, (size_t)a, off);
			park("torn", fdt[fd].path, NULL, a, (long long)off, fd, NULL);
			return (ssize_t)a;
		}
	}
	return real_pwrite(fd, buf, n, off);
}

ssize_t pwrite64(int fd, const void *buf, size_t n, off64_t off)
{
	REAL(pwrite64);
	if (armed && fd >= 0 && fd < MAXFD && fdt[fd].tracked) {
		long long a = 0;
		int v = pre_write(fd, "pwrite", n, (long long)off, &a);
		if (v == V_FAIL) { errno = (int)a; return -1; }
		if (v == V_TORN) {
			if (a > 0) real_pwrite64(fd, buf, (size_t)a, off);
			park("torn", fdt[fd].path, NULL, a, (long long)off, fd, NULL);
			return (ssize_t)a;
		}
	}
	return real_pwrite64(fd, buf, n, off);
}

#include <sys/sendfile.h>
ssize_t sendfile(int out_fd, int in_fd, off_t *offset, size_t count)
{
	REAL(sendfile);
	if (armed && out_fd >= 0 && out_fd < MAXFD && fdt[out_fd].tracked) {
		long long a = 0;
		int v = pre_write(out_fd, "sendfile", count, -1, &a);
		if (v == V_FAIL) { errno = (int)a; return -1; }
		if (v == V_TORN) {
			ssize_t r = 0;
			if (a > 0) r = real_sendfile(out_fd, in_fd, offset, (size_t)a);
			park("torn", fdt[out_fd].path, NULL, a, -1, out_fd, NULL);
			return r;
		}
	}
	return real_sendfile(out_fd, in_fd, offset, count);
}

ssize_t sendfile64(int out_fd, int in_fd, off64_t *offset, size_t count)
{
	REAL(sendfile64);
	if (armed && out_fd >= 0 && out_fd < MAXFD && fdt[out_fd].tracked) {
		long long a = 0;
		int v = pre_write(out_fd, "sendfile", count, -1, &a);
		if (v == V_FAIL) { errno = (int)a; return -1; }
		if (v == V_TORN) {
			ssize_t r = 0;
			if (a > 0) r = real_sendfile64(out_fd, in_fd, offset, (size_t)a);
			park("torn", fdt[out_fd].path, NULL, a, -1, out_fd, NULL);
			return r;
		}
	}
	return real_sendfile64(out_fd, in_fd, offset, count);
}

ssize_t copy_file_range(int fd_in, off64_t *off_in, int fd_out, off64_t *off_out, size_t len,
			unsigned int flags)
{
	REAL(copy_file_range);
	if (armed && fd_out >= 0 && fd_out < MAXFD && fdt[fd_out].tracked) {
		long long a = 0;
		int v = pre_write(fd_out, "sendfile", len, -1, &a);
		if (v == V_FAIL) { errno = (int)a; return -1; }
		if (v == V_TORN) {
			ssize_t r = 0;
			if (a > 0) r = real_copy_file_range(fd_in, off_in, fd_out, off_out, (size_t)a, flags);
			park("torn", fdt[fd_out].path, NULL, a, -1, fd_out, NULL);
			return r;
		}
	}
	return real_copy_file_range(fd_in, off_in, fd_out, off_out, len, flags);
}

int ftruncate(int fd, off_t len)
{
	REAL(ftruncate);
	if (armed && fd >= 0 && fd < MAXFD && fdt[fd].tracked) {
		long long a = 0;
		int v = park("ftruncate", fdt[fd].path, NULL, (long long)len, 0, fd, &a);
		if (v == V_FAIL) { errno = (int)a; return -1; }
	}
	return real_ftruncate(fd, len);
}

int ftruncate64(int fd, off64_t len)
{
	REAL(ftruncate64);
	if (armed && fd >= 0 && fd < MAXFD && fdt[fd].tracked) {
		long long a = 0;
		int v = park("ftruncate", fdt[fd].path, NULL, (long long)len, 0, fd, &a);
		if (v == V_FAIL) { errno = (int)a; return -1; }
	}
	return real_ftruncate64(fd, len);
}

int fsync(int fd)
{
	REAL(fsync);
	if (armed && fd >= 0 && fd < MAXFD && fdt[fd].tracked) {
		long long a = 0;
		int v = park("fsync", fdt[fd].path, NULL, 0, 0, fd, &a);
		if (v == V_FAIL) { errno = (int)a; return -1; }
	}
	return real_fsync(fd);
}

/* ---- namespace operations ---- */
#define PATH1(name, kind)                                                   \
	int name(const char *path)                                          \
	{                                                                   \
		REAL(name);                                                 \
		if (under(path)) {                                          \
			long long a = 0;                                    \
			int v = park(kind, rel(path), NULL, 0, 0, 0, &a);   \
			if (v == V_FAIL) { errno = (int)a; return -1; }     \
		}                                                           \
		return real_##name(path);                                   \
	}

PATH1(unlink, "unlink")
PATH1(remove, "unlink")
PATH1(rmdir, "rmdir")

int unlinkat(int dirfd, const char *path, int flags)
{
	REAL(unlinkat);
	if (dirfd == AT_FDCWD && under(path)) {
		long long a = 0;
		int v = park((flags & AT_REMOVEDIR) ? "rmdir" : "unlink", rel(path), NULL, 0, 0, 0, &a);
		if (v == V_FAIL) { errno = (int)a; return -1; }
	}
	return real_unlinkat(dirfd, path, flags);
}

int mkdir(const char *path, mode_t mode)
{
	REAL(mkdir);
	if (under(path)) {
		long long a = 0;
		int v = park("mkdir", rel(path), NULL, 0, 0, 0, &a);
		if (v == V_FAIL) { errno = (int)a; return -1; }
	}
	return real_mkdir(path, mode);
}

int rename(const char *from, const char *to)
{
	REAL(rename);
	if (under(from) || under(to)) {
		long long a = 0;
		int v = park("rename", under(from) ? rel(from) : from, under(to) ? rel(to) : to, 0, 0, 0, &a);
		if (v == V_FAIL) { errno = (int)a; return -1; }
	}
	return real_rename(from, to);
}

int renameat(int fd1, const char *from, int fd2, const char *to)
{
	REAL(renameat);
	if (fd1 == AT_FDCWD && fd2 == AT_FDCWD && (under(from) || under(to))) {
		long long a = 0;
		int v = park("rename", under(from) ? rel(from) : from, under(to) ? rel(to) : to, 0, 0, 0, &a);
		if (v == V_FAIL) { errno = (int)a; return -1; }
	}
	return real_renameat(fd1, from, fd2, to);
}

int link(const char *from, const char *to)
{
	REAL(link);
	if (under(from) || under(to)) {
		long long a = 0;
		int v = park("link", under(from) ? rel(from) : from, under(to) ? rel(to) : to, 0, 0, 0, &a);
		if (v == V_FAIL) { errno = (int)a; return -1; }
	}
	return real_link(from, to);
}

int linkat(int fd1, const char *from, int fd2, const char *to, int flags)
{
	REAL(linkat);
	if (fd1 == AT_FDCWD && fd2 == AT_FDCWD && (under(from) || under(to))) {
		long long a = 0;
		int v = park("link", under(from) ? rel(from) : from, under(to) ? rel(to) : to, 0, 0, 0, &a);
		if (v == V_FAIL) { errno = (int)a; return -1; }
	}
	return real_linkat(fd1, from, fd2, to, flags);
}

int symlink(const char *target, const char *linkpath)
{
	REAL(symlink);
	if (under(linkpath)) {
		long long a = 0;
		int v = park("symlink", under(target) ? rel(target) : target, rel(linkpath), 0, 0, 0, &a);
		if (v == V_FAIL) { errno = (int)a; return -1; }
	}
	return real_symlink(target, linkpath);
}

/* ---- clock ---- */
time_t time(time_t *t)
{
	REAL(time);
	if (armed) {
		time_t v = (time_t)(vclock_ns / 1000000000LL);
		if (t) *t = v;
		return v;
	}
	return real_time(t);
}

int gettimeofday(struct timeval *tv, void *tz)
{
	static int (*real_gtod)(struct timeval *, void *) = NULL;
	if (!real_gtod) real_gtod = dlsym(RTLD_NEXT, "gettimeofday");
	if (armed && tv) {
		tv->tv_sec = vclock_ns / 1000000000LL;
		tv->tv_usec = (vclock_ns % 1000000000LL) / 1000;
		return 0;
	}
	return real_gtod(tv, tz);
}

int clock_gettime(clockid_t id, struct timespec *ts)
{
	REAL(clock_gettime);
	if (armed && id == CLOCK_REALTIME && ts) {
		ts->tv_sec = vclock_ns / 1000000000LL;
		ts->tv_nsec = vclock_ns % 1000000000LL;
		return 0;
	}
	return real_clock_gettime(id, ts);
}
