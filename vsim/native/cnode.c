/* cnode - replay driver for the public C API of libdigital_rf (built with ASan + UBSan).
 *
 * usage: cnode <plan file>
 * plan file (text), one record per line:
 *   init <dir> <kind i|u|f> <bytes> <order <|>> <nsub> <n> <d> <file_ms> <subdir_s> <continuous> <compression>
 *        <checksum> <is_complex> <start> <uuid>
 *   w  <rel> <len> <datafile>
 *   wb <len> <datafile> <k> <g1> .. <gk> <b1> .. <bk>          (k may be 0: index_len = 0)
 *   close
 * After every record the driver prints "R <lineno> <rc> <global_index> <has_failure>" and then waits for one
 * line on stdin, so that the simulator can inspect the tree between two API calls.
 * Index arrays always have >= 1 allocated element, so index_len = 0 tests the library, not the driver.
 */
#include <inttypes.h>
#include <stdio.h>
#include <stdlib.h>
#include <string.h>

#include "digital_rf.h"
#include "hdf5.h"

static hid_t h5type(char kind, int bytes, char order)
{
	int be = order == '>';
	if (kind == 'f') return bytes == 4 ? (be ? H5T_IEEE_F32BE : H5T_IEEE_F32LE) : (be ? H5T_IEEE_F64BE : H5T_IEEE_F64LE);
	if (kind == 'i') {
		switch (bytes) {
		case 1: return H5T_STD_I8LE;
		case 2: return be ? H5T_STD_I16BE : H5T_STD_I16LE;
		case 4: return be ? H5T_STD_I32BE : H5T_STD_I32LE;
		default: return be ? H5T_STD_I64BE : H5T_STD_I64LE;
		}
	}
	switch (bytes) {
	case 1: return H5T_STD_U8LE;
	case 2: return be ? H5T_STD_U16BE : H5T_STD_U16LE;
	case 4: return be ? H5T_STD_U32BE : H5T_STD_U32LE;
	default: return be ? H5T_STD_U64BE : H5T_STD_U64LE;
	}
}

static void *slurp(const char *path, size_t *n)
{
	FILE *f = fopen(path, "rb");
	void *buf;
	long sz;
	if (!f) { *n = 0; return calloc(1, 16); }
	fseek(f, 0, SEEK_END);
	sz = ftell(f);
	fseek(f, 0, SEEK_SET);
	buf = malloc(sz > 0 ? (size_t)sz : 16);
	if (sz > 0 && fread(buf, 1, (size_t)sz, f) != (size_t)sz) { perror("fread"); exit(3); }
	fclose(f);
	*n = (size_t)sz;
	return buf;
}

static void pause_(int lineno, int rc, Digital_rf_write_object *o)
{
	char line[64];
	printf("R %d %d %" PRIu64 " %d\n", lineno, rc, o ? o->global_index : 0, o ? o->has_failure : 0);
	fflush(stdout);
	if (!fgets(line, sizeof line, stdin)) exit(0);
}

int main(int argc, char **argv)
{
	FILE *pf;
	char line[65536];
	int lineno = 0;
	Digital_rf_write_object *o = NULL;
	if (argc < 2) return 2;
	pf = fopen(argv[1], "r");
	if (!pf) return 2;
	H5Eset_auto2(H5E_DEFAULT, NULL, NULL);
	while (fgets(line, sizeof line, pf)) {
		char *tok = strtok(line, " \n");
		lineno++;
		if (!tok) continue;
		if (!strcmp(tok, "init")) {
			char dir[1024], uuid[256], kind, order;
			int bytes, nsub, cont, comp, cks, cplx;
			uint64_t n, d, fms, sds, start;
			strcpy(dir, strtok(NULL, " \n"));
			kind = strtok(NULL, " \n")[0];
			bytes = atoi(strtok(NULL, " \n"));
			order = strtok(NULL, " \n")[0];
			nsub = atoi(strtok(NULL, " \n"));
			n = strtoull(strtok(NULL, " \n"), NULL, 10);
			d = strtoull(strtok(NULL, " \n"), NULL, 10);
			fms = strtoull(strtok(NULL, " \n"), NULL, 10);
			sds = strtoull(strtok(NULL, " \n"), NULL, 10);
			cont = atoi(strtok(NULL, " \n"));
			comp = atoi(strtok(NULL, " \n"));
			cks = atoi(strtok(NULL, " \n"));
			cplx = atoi(strtok(NULL, " \n"));
			start = strtoull(strtok(NULL, " \n"), NULL, 10);
			strcpy(uuid, strtok(NULL, " \n"));
			o = digital_rf_create_write_hdf5(dir, h5type(kind, bytes, order), sds, fms, start, n, d, uuid, comp, cks,
							 cplx, nsub, cont, 0);
			pause_(lineno, o ? 0 : -1, o);
			if (!o) return 0;
		} else if (!strcmp(tok, "w")) {
			uint64_t rel = strtoull(strtok(NULL, " \n"), NULL, 10);
			uint64_t len = strtoull(strtok(NULL, " \n"), NULL, 10);
			size_t nb;
			void *data = slurp(strtok(NULL, " \n"), &nb);
			int rc = digital_rf_write_hdf5(o, rel, data, len);
			free(data);
			pause_(lineno, rc, o);
		} else if (!strcmp(tok, "wb")) {
			uint64_t len = strtoull(strtok(NULL, " \n"), NULL, 10);
			size_t nb;
			void *data = slurp(strtok(NULL, " \n"), &nb);
			int k = atoi(strtok(NULL, " \n")), i, rc;
			uint64_t *g = calloc((size_t)(k > 0 ? k : 1), sizeof *g);
			uint64_t *b = calloc((size_t)(k > 0 ? k : 1), sizeof *b);
			for (i = 0; i < k; i++) g[i] = strtoull(strtok(NULL, " \n"), NULL, 10);
			for (i = 0; i < k; i++) b[i] = strtoull(strtok(NULL, " \n"), NULL, 10);
			rc = digital_rf_write_blocks_hdf5(o, g, b, (uint64_t)k, data, len);
			free(g);
			free(b);
			free(data);
			pause_(lineno, rc, o);
		} else if (!strcmp(tok, "close")) {
			int rc = digital_rf_close_write_hdf5(o);
			o = NULL;
			pause_(lineno, rc, NULL);
		}
	}
	fclose(pf);
	if (o) digital_rf_close_write_hdf5(o);
	H5close();
	return 0;
}
