#!/venv/bin/python
"""Regenerate MANIFEST.json from the registry in vsim/check.py (single source of truth)."""
import json
import os
import sys

D = os.path.dirname(os.path.dirname(os.path.abspath(__file__)))
sys.path.insert(0, D)
from vsim import manifest_data as MD  # noqa: E402

checks = []
for pid in sorted(MD.CHECKS):
    c = MD.CHECKS[pid]
    checks.append({
        "property_id": pid,
        "quick_cmd": "bin/check %s --tier quick" % pid,
        "thorough_cmd": "bin/check %s --tier thorough" % pid,
        "evidence_file": "/verif/evidence/%s.json" % pid,
        "replay_cmd_template": "bin/check %s --replay {path}" % pid,
        "engine": c["engine"],
        "level_claimed": {"category": c["level"], "text": c["text"], "design_ref": c["design_ref"]},
        "level_note": c["note"],
        "technique": c["technique"],
    })
props = [json.loads(l)["id"] for l in open(os.path.join(D, "properties.jsonl"))]
na = [{"property_id": p, "reason": MD.NOT_APPLICABLE[p]} for p in props if p not in MD.CHECKS]
for p in props:
    assert p in MD.CHECKS or p in MD.NOT_APPLICABLE, p
man = {
    "version": 1,
    "setup_cmd": "bin/setup.sh",
    "hooks": {
        "guard": "DIGITAL_RF_VERIF",
        "enable": "no source hook exists in /repo: every seam is at the libc boundary (LD_PRELOAD vsim_shim.so, armed "
                  "only inside forked simulator nodes) or a Python module boundary; bin/check rebuilds the extension "
                  "from /repo's working tree into /verif/.cache/<hash>/stage",
        "baseline_off_cmd": "bin/baseline_off.sh",
        "source_commits": [],
        "add_only": True,
    },
    "engines": MD.ENGINES,
    "checks": checks,
    "not_applicable": na,
    "notes": MD.NOTES,
}
json.dump(man, open(os.path.join(D, "MANIFEST.json"), "w"), indent=1)
print("MANIFEST.json: %d checks, %d not applicable" % (len(checks), len(na)))
