#!/bin/sh
# MANIFEST.setup_cmd: build the framework for the current /repo tree from files on disk only.
D="$(cd "$(dirname "$0")/.." && pwd)"
cd "$D" || exit 2
mkdir -p evidence replays
/venv/bin/python -c "import hypothesis" 2>/dev/null || /venv/bin/pip install --no-index --find-links /opt/veriftools/wheels hypothesis >/dev/null 2>&1 || true
exec /venv/bin/python "$D/vsim/build.py" --cnode
