#!/bin/sh
# The repository's own suite with the guard OFF (no hook exists in /repo; the guard only selects the
# simulator's LD_PRELOAD seam, which is never loaded here).
unset DIGITAL_RF_VERIF LD_PRELOAD
cd /repo && exec /venv/bin/python -m pytest -ra -q -p no:cacheprovider --timeout=900 --continue-on-collection-errors "$@"
