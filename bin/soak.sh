#!/bin/sh
# bin/soak.sh <seed> [<seed> ...] : every quick check under other seeds (looking for rare false alarms / findings).
# Evidence files are restored afterwards (committed evidence comes from the default seed).
D="$(cd "$(dirname "$0")/.." && pwd)"
cd "$D" || exit 2
BK=$(mktemp -d /dev/shm/soak-ev-XXXXXX)
cp evidence/*.json "$BK"/
for seed in "$@"; do
  for p in C01 C02 C04 C05 C06 C07 C08 C09 C10 C11 C12 C13 C14 C15 C16 C17 C18 C19 C20; do
    out=$(VERIF_SEED=$seed timeout 900 bin/check $p --tier quick ${SOAK_ARGS:-} 2>&1)
    rc=$?
    echo "seed=$seed $p rc=$rc $(echo "$out" | grep -m1 'runs=')"
    [ $rc -ne 0 ] && echo "$out" | grep "violation class\|HARNESS" | cut -c1-400 | head -5
  done
done
cp "$BK"/*.json evidence/; rm -rf "$BK"
