import os
import sys

sys.path.insert(0, os.path.dirname(os.path.dirname(os.path.abspath(__file__))))
from vsim.check import main  # noqa: E402

sys.exit(main())
