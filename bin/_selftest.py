import glob
import json
import os
import subprocess
import sys
import tempfile

D = os.path.dirname(os.path.dirname(os.path.abspath(__file__)))
ALL = ["C01", "C02", "C04", "C05", "C06", "C07", "C08", "C09", "C10", "C11", "C12", "C13", "C14", "C15", "C16", "C17",
       "C18", "C19", "C20"]


def run_check(prop, runs, env_extra, out):
    env = dict(os.environ)
    for k in ("VSIM_SHIM", "LD_PRELOAD", "PYTHONHASHSEED", "VSIM_SCRATCH"):
        env.pop(k, None)
    env.update(env_extra)
    r = subprocess.run(["timeout", "900", os.path.join(D, "bin", "check"), prop, "--runs", str(runs), "--no-shrink",
                        "--budget", "600", "--dump-digests", out], env=env, stdout=subprocess.PIPE,
                       stderr=subprocess.STDOUT, text=True, cwd=D)
    return r.returncode, r.stdout


def determinism(props, runs):
    bad = 0
    saved = {}
    for p in glob.glob(os.path.join(D, "evidence", "*.json")):
        saved[p] = open(p).read()
    try:
        for prop in props:
            outs = []
            cfgs = [({"VSIM_JOBS": "16"}, "16 workers"), ({"VSIM_JOBS": "16"}, "16 workers again"),
                    ({"VSIM_JOBS": "3", "VSIM_HASHSEED": "4242"}, "3 workers, PYTHONHASHSEED=4242")]
            for env, label in cfgs:
                fd, path = tempfile.mkstemp(prefix="dg-", dir="/dev/shm")
                os.close(fd)
                rc, out = run_check(prop, runs, env, path)
                if rc == 2:
                    print("%s: HARNESS-ERROR in determinism run (%s)\n%s" % (prop, label, out[-800:]))
                    bad += 1
                try:
                    outs.append(json.load(open(path)))
                except Exception:
                    outs.append({})
                os.remove(path)
            a = outs[0]
            diffs = [(k, [o.get(k) for o in outs]) for k in a if any(o.get(k) != a[k] for o in outs[1:])]
            print("%s: %d seeds x 3 executions (fresh interpreters, 16/16/3 workers, two hash seeds): %d digest mismatches" % (
                prop, len(a), len(diffs)))
            if diffs or not a:
                bad += 1
                print("   e.g.", diffs[:2])
    finally:
        for p, c in saved.items():
            open(p, "w").write(c)
    return bad


def sensitivity():
    bad = 0
    for meta in sorted(glob.glob(os.path.join(D, "seeded", "*", "meta.json"))):
        m = json.load(open(meta))
        d = os.path.dirname(meta)
        r = subprocess.run([os.path.join(D, "bin", "mutant"), os.path.join(d, "patch.diff")] + m.get("checks", [m["property"]]),
                           stdout=subprocess.PIPE, stderr=subprocess.STDOUT, text=True, cwd=D)
        caught = "CAUGHT" in r.stdout
        print("%s: %s" % (os.path.basename(d), "caught" if caught else "MISSED"))
        if not caught and m.get("expected", "caught") == "caught":
            bad += 1
    return bad


if __name__ == "__main__":
    mode = sys.argv[1] if len(sys.argv) > 1 else "determinism"
    if mode == "determinism":
        props = sys.argv[2:] or ALL
        sys.exit(1 if determinism(props, int(os.environ.get("SELFTEST_RUNS", "48"))) else 0)
    sys.exit(1 if sensitivity() else 0)
