import glob
import json
import os
import subprocess
import sys
import tempfile

D = os.path.dirname(os.path.dirname(os.path.abspath(__file__)))
ALL = ["C01", "C02", "C04", "C05", "C06", "C07", "C08", "C09", "C10", "C11", "C12", "C13", "C14", "C15", "C16", "C17",
       "C18", "C19", "C20"]


def run_check(prop, runs, env_extra, out):
    env = dict(os.environ)
    for k in ("VSIM_SHIM", "LD_PRELOAD", "PYTHONHASHSEED", "VSIM_SCRATCH"):
        env.pop(k, None)
    env.update(env_extra)
    r = subprocess.run(["timeout", "900", os.path.join(D, "bin", "check"), prop, "--runs", str(runs), "--no-shrink",
                        "--budget", "600", "--dump-digests", out], env=env, stdout=subprocess.PIPE,
                       stderr=subprocess.STDOUT, text=True, cwd=D)
    return r.returncode, r.stdout


def determinism(props, runs):
    bad = 0
    saved = {}
    for p in glob.glob(os.path.join(D, "evidence", "*.json")):
        saved[p] = open(p).read()
    try:
        for prop in props:
            outs = []
            cfgs = [({"VSIM_JOBS": "16"}, "16 workers"), ({"VSIM_JOBS": "16"}, "16 workers again"),
                    ({"VSIM_JOBS": "3", "VSIM_HASHSEED": "4242"}, "3 workers, PYTHONHASHSEED=4242")]
            for env, label in cfgs:
                fd, path = tempfile.mkstemp(prefix="dg-", dir="/dev/shm")
                os.close(fd)
                rc, out = run_check(prop, runs, env, path)
                if rc == 2:
                    print("%s: HARNESS-ERROR in determinism run (%s)\n%s" % (prop, label, out[-800:]))
                    bad += 1
                try:
                    outs.append(json.load(open(path)))
                except Exception:
                    outs.append({})
                os.remove(path)
            a = outs[0]
            diffs = [(k, [o.get(k) for o in outs]) for k in a if any(o.get(k) != a[k] for o in outs[1:])]
            print("%s: %d seeds x 3 executions (fresh interpreters, 16/16/3 workers, two hash seeds): %d digest mismatches" % (
                prop, len(a), len(diffs)))
            if diffs or not a:
                bad += 1
                print("   e.g.", diffs[:2])
    finally:
        for p, c in saved.items():
            open(p, "w").write(c)
    return bad


def sensitivity(only=None):
    """Final protocol: git apply the seeded change to /repo, run the named quick checks, undo it."""
    bad = 0
    rows = []
    for meta in sorted(glob.glob(os.path.join(D, "seeded", "*", "meta.json"))):
        m = json.load(open(meta))
        d = os.path.dirname(meta)
        if only and m["id"] not in only:
            continue
        r = subprocess.run([os.path.join(D, "bin", "mutant"), os.path.join(d, "patch.diff")] + m.get("checks", [m["property"]]),
                           stdout=subprocess.PIPE, stderr=subprocess.STDOUT, text=True, cwd=D)
        res = {}
        for line in r.stdout.splitlines():
            parts = line.split()
            if len(parts) >= 2 and parts[0] in ("CAUGHT", "MISSED", "HARNESS"):
                cid = parts[1].rstrip(":")
                cls = ""
                if "violation class=" in line:
                    cls = line.split("violation class=")[1].split()[0]
                res[cid] = (parts[0], cls)
        # (a change that needs a fault / schedule outside its own property's quantifier names the check that owns it)
        owners = m.get("decided_by") or [m["property"]]
        caught = any(v[0] == "CAUGHT" for k, v in res.items() if k in owners)
        print("%s: %s  %s" % (m["id"], "caught" if caught else "MISSED", res))
        sys.stdout.flush()
        m["last_sensitivity_run"] = {k: {"outcome": v[0], "violation_class": v[1]} for k, v in res.items()}
        json.dump(m, open(meta, "w"), indent=1)
        rows.append((m, res, caught))
        if not caught and m.get("expected", "caught") == "caught":
            bad += 1
    if not only:
        with open(os.path.join(D, "seeded", "SUMMARY.md"), "w") as f:
            f.write("# Seeded changes and the checks that catch them\n\n"
                    "Written by `bin/selftest sensitivity` (patch applied to /repo with `git apply`, quick checks run, "
                    "`git checkout -- .` afterwards).\n\n| id | breaks | needs in order to manifest | quick checks run -> outcome (violation class) |\n|---|---|---|---|\n")
            for m, res, caught in rows:
                f.write("| %s | %s | %s | %s |\n" % (m["id"], m["property"], m["needs_to_manifest"],
                        "; ".join("%s: %s%s" % (k, v[0].lower(), (" (" + v[1] + ")") if v[1] else "") for k, v in sorted(res.items()))))
    return bad


def summary():
    rows = []
    for meta in sorted(glob.glob(os.path.join(D, "seeded", "S-*", "meta.json"))):
        rows.append(json.load(open(meta)))
    with open(os.path.join(D, "seeded", "SUMMARY.md"), "w") as f:
        f.write("# Seeded changes and the checks that catch them\n\n"
                "Outcomes are those of the last `bin/selftest sensitivity` run recorded in each `meta.json` (patch applied to "
                "/repo with `git apply`, quick checks run, `git checkout -- .` afterwards).\n\n"
                "| id | breaks | needs in order to manifest | quick checks run -> outcome (violation class) |\n|---|---|---|---|\n")
        for m in rows:
            res = m.get("last_sensitivity_run", {})
            f.write("| %s | %s | %s | %s |\n" % (m["id"], m["property"], m["needs_to_manifest"],
                    "; ".join("%s: %s%s" % (k, v["outcome"].lower(), (" (" + v["violation_class"] + ")") if v["violation_class"] else "")
                              for k, v in sorted(res.items())) or "not run yet"))
    missed = [m["id"] for m in rows if not any(v["outcome"] == "CAUGHT" for k, v in m.get("last_sensitivity_run", {}).items()
                                               if k == m["property"])]
    print("%d seeded changes, not caught by the check of their own property: %s" % (len(rows), missed or "none"))
    return 1 if missed else 0


if __name__ == "__main__":
    if len(sys.argv) > 1 and sys.argv[1] == "summary":
        sys.exit(summary())
    mode = sys.argv[1] if len(sys.argv) > 1 else "determinism"
    if mode == "determinism":
        props = sys.argv[2:] or ALL
        sys.exit(1 if determinism(props, int(os.environ.get("SELFTEST_RUNS", "48"))) else 0)
    sys.exit(1 if sensitivity(sys.argv[2:] or None) else 0)
