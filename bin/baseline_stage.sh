#!/bin/sh
# The repository's suite against the *working tree* (staged build of /repo incl. fix: commits).
D="$(cd "$(dirname "$0")/.." && pwd)"
STAGE="$(/venv/bin/python "$D/vsim/build.py" | tail -1)/stage"
unset DIGITAL_RF_VERIF LD_PRELOAD
cd /repo && PYTHONPATH="$STAGE" exec /venv/bin/python -m pytest -q -p no:cacheprovider --timeout=900 -x -q "$@"
