"""bin/_dbg.py <script.py> [args]: run a debugging script inside the same environment as a check (staged build of
VSIM_REPO or /repo, shim preloaded, fixed hash seed).  The script sees `info` and the vsim package."""
import os
import sys

sys.path.insert(0, os.path.dirname(os.path.dirname(os.path.abspath(__file__))))
from vsim import build as B  # noqa: E402
from vsim import kernel as K  # noqa: E402

info = B.build(want_cnode=True)
os.environ["VSIM_CNODE"] = info["cnode"]
K.ensure_env(info)
B.activate(info)
K.scratch_base()
try:
    script = sys.argv[1]
    sys.argv = sys.argv[1:]
    exec(compile(open(script).read(), script, "exec"), {"__name__": "__main__", "info": info})
finally:
    K.cleanup_scratch()
